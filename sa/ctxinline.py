"""Context managers that are not in the reference are inlined at their `with` sites.

Two spellings of one thing are recognised and reduced to the try statement they stand for:

  * a generator function decorated with `contextmanager`:

        @contextmanager
        def cm(p):            with cm(a) as v:          <PRE[p:=a]>
            PRE                   BODY           ==>    try:
            try:                                            v = X
                yield X                                     BODY
            except E:                                   except E:
                H                                           H
            finally:                                    finally:
                F                                           F

    provided every path through the function reaches exactly one `yield` (in statement position; two at most, in the
    exclusive arms of an `if`), and nothing can run after the `yield` on
    the normal path except `finally` blocks (so that a `return` inside BODY skips nothing);

  * a class with only `__init__`, `__enter__` and `__exit__` whose `__init__` stores its parameters (or constants)
    in fields, whose `__enter__` is straight-line code over those fields, and whose `__exit__` does nothing when no
    exception is in flight and never suppresses one: it is first rewritten into the generator form above, the
    fields becoming locals, with `__exit__`'s body (specialised to "an exception is in flight") in an
    `except BaseException: ...; raise` handler.

Only applied to context managers that are unknown to the reference inventory and that are referenced nowhere but
as the context expression of `with` statements.
"""
import ast
import copy

from .inline import Helper, Inliner, _names, _strip_doc, _walk_own_stmt, references
from .refnorm import functions_of


def _is_cm_decorator(d):
    return (isinstance(d, ast.Name) and d.id == "contextmanager") or (isinstance(d, ast.Attribute) and d.attr == "contextmanager")


def _own_stmts(stmts):
    for s in stmts:
        yield s
        for n in _walk_own_stmt(s):
            if isinstance(n, ast.stmt):
                yield n


def _yield_sites(body):
    """[(block list, index)] of the statement-position `yield`s: exactly one on every path (several only in the
    exclusive arms of `if` statements), nothing but `finally` after it on the normal path; None otherwise"""
    ys = [n for s in body for n in ([s] + list(_walk_own_stmt(s))) if isinstance(n, (ast.Yield, ast.YieldFrom))]
    if not ys or any(not isinstance(y, ast.Yield) for y in ys):
        return None
    yid = {id(y) for y in ys}

    def has(stmts):
        return any(id(x) in yid for s in stmts for x in ast.walk(s))

    def find(lst, tail_ok):
        """sites in this block; False = a yield in an unsupported position"""
        out = []
        for i, s in enumerate(lst):
            last = i == len(lst) - 1
            if isinstance(s, ast.Expr) and id(s.value) in yid:
                if not (tail_ok and last):
                    return False
                out.append((lst, i))
            elif isinstance(s, ast.Try):
                r = find(s.body, tail_ok and last and not s.orelse)
                if r is False:
                    return False
                out.extend(r)
                for blk in [s.orelse, s.finalbody] + [h.body for h in s.handlers]:
                    if has(blk):
                        return False
            elif isinstance(s, (ast.With, ast.AsyncWith)):
                r = find(s.body, tail_ok and last)
                if r is False:
                    return False
                out.extend(r)
            elif isinstance(s, ast.If):
                if has([s]):
                    a, b = find(s.body, tail_ok and last), find(s.orelse, tail_ok and last)
                    if a is False or b is False or not a or not b:
                        return False  # every path must reach exactly one yield
                    out.extend(a + b)
            elif has([s]):
                return False
        return out

    r = find(body, True)
    if not r or len(r) != len(ys):
        return None
    return r


class _FieldsToLocals(ast.NodeTransformer):
    def __init__(self, selfname, prefix):
        self.selfname, self.prefix = selfname, prefix
        self.bad = False

    def visit_Attribute(self, n):
        if isinstance(n.value, ast.Name) and n.value.id == self.selfname:
            return ast.copy_location(ast.Name(id=self.prefix + n.attr, ctx=n.ctx), n)
        self.generic_visit(n)
        return n

    def visit_Name(self, n):
        if n.id == self.selfname:
            self.bad = True
        return n


class _ExcInFlight(ast.NodeTransformer):
    """`exc_type is not None` and friends decided"""

    def __init__(self, names, in_flight):
        self.names, self.in_flight = set(names), in_flight

    def visit_Compare(self, n):
        self.generic_visit(n)
        if len(n.ops) == 1 and isinstance(n.left, ast.Name) and n.left.id in self.names and isinstance(n.comparators[0], ast.Constant) and n.comparators[0].value is None:
            if isinstance(n.ops[0], (ast.IsNot, ast.NotEq)):
                return ast.copy_location(ast.Constant(value=self.in_flight), n)
            if isinstance(n.ops[0], (ast.Is, ast.Eq)):
                return ast.copy_location(ast.Constant(value=not self.in_flight), n)
        return n


def _fold_ifs(stmts):
    out = []
    for s in stmts:
        if isinstance(s, ast.If):
            t = s.test
            if isinstance(t, ast.UnaryOp) and isinstance(t.op, ast.Not) and isinstance(t.operand, ast.Constant):
                t = ast.Constant(value=not t.operand.value)
            if isinstance(t, ast.Constant) and isinstance(t.value, bool):
                out.extend(_fold_ifs(s.body if t.value else s.orelse))
                continue
            s.body = _fold_ifs(s.body) or [ast.copy_location(ast.Pass(), s)]
            s.orelse = _fold_ifs(s.orelse)
        out.append(s)
    return out


def _class_as_generator(cnode):
    """synthetic generator-form FunctionDef for a simple context-manager class, or None"""
    methods = {}
    for st in cnode.body:
        if isinstance(st, ast.FunctionDef):
            methods[st.name] = st
        elif isinstance(st, ast.Expr) and isinstance(st.value, ast.Constant):
            continue
        elif isinstance(st, (ast.Pass, ast.AnnAssign)) and getattr(st, "value", None) is None:
            continue
        elif isinstance(st, ast.Assign) and all(isinstance(t, ast.Name) and t.id == "__slots__" for t in st.targets):
            continue
        else:
            return None
    if set(methods) != {"__init__", "__enter__", "__exit__"} or cnode.bases or cnode.decorator_list or cnode.keywords:
        return None
    init, enter, exit_ = methods["__init__"], methods["__enter__"], methods["__exit__"]
    for m in methods.values():
        if m.decorator_list or m.args.vararg or m.args.kwarg or m.args.posonlyargs or not m.args.args:
            return None
    prefix = ""
    # __init__: self.f = <expr without self>
    sname = init.args.args[0].arg
    pre = []
    for st in _strip_doc(init.body):
        if isinstance(st, ast.Pass):
            continue
        if not (isinstance(st, (ast.Assign, ast.AnnAssign)) and getattr(st, "value", None) is not None):
            return None
        tr = _FieldsToLocals(sname, prefix)
        st2 = tr.visit(copy.deepcopy(st))
        if tr.bad:
            return None
        if isinstance(st2, ast.AnnAssign):
            st2 = ast.copy_location(ast.Assign(targets=[st2.target], value=st2.value), st2)
        if not all(isinstance(t, ast.Name) for t in st2.targets):
            return None
        pre.append(st2)
    fields = {t.id for st in pre for t in st.targets}
    params = {a.arg for a in init.args.args[1:] + init.args.kwonlyargs}
    if (fields & params) - {t.id for st in pre for t in st.targets if isinstance(st.value, ast.Name) and st.value.id == t.id}:
        # a field named like a parameter but holding something else: keep apart
        return None
    # __enter__: straight-line, ends with `return self` / `return <expr>` / nothing
    ename = enter.args.args[0].arg
    if len(enter.args.args) != 1:
        return None
    ebody = _strip_doc(enter.body)
    yielded = None
    if ebody and isinstance(ebody[-1], ast.Return):
        rv = ebody[-1].value
        ebody = ebody[:-1]
        if rv is not None and not (isinstance(rv, ast.Name) and rv.id == ename) and not (isinstance(rv, ast.Constant) and rv.value is None):
            tr = _FieldsToLocals(ename, prefix)
            yielded = tr.visit(copy.deepcopy(rv))
            if tr.bad:
                return None
        elif isinstance(rv, ast.Name):
            yielded = "self"
    for st in ebody:
        if not isinstance(st, (ast.Assign, ast.Expr, ast.AugAssign)):
            return None
    tr = _FieldsToLocals(ename, prefix)
    ebody = [tr.visit(copy.deepcopy(s)) for s in ebody]
    if tr.bad:
        return None
    # __exit__
    xargs = [a.arg for a in exit_.args.args]
    if len(xargs) != 4:
        return None
    xname, excs = xargs[0], xargs[1:]
    xbody = _strip_doc(exit_.body)

    def special(in_flight):
        tr2 = _FieldsToLocals(xname, prefix)
        b = [tr2.visit(_ExcInFlight(excs, in_flight).visit(copy.deepcopy(s))) for s in xbody]
        if tr2.bad:
            return None
        return _fold_ifs(b)

    def strip_returns(b):
        """returns must be falsy constants (no suppression), in tail position of the body"""
        if b and isinstance(b[-1], ast.Return):
            v = b[-1].value
            if v is not None and not (isinstance(v, ast.Constant) and not v.value):
                return None
            b = b[:-1]
        if any(isinstance(n, ast.Return) for s in b for n in ast.walk(s)):
            return None
        return b

    quiet = special(False)
    loud = special(True)
    if quiet is None or loud is None:
        return None
    quiet, loud = strip_returns(quiet), strip_returns(loud)
    if quiet is None or loud is None:
        return None
    if [s for s in quiet if not isinstance(s, ast.Pass)]:
        return None
    if any(isinstance(n, ast.Name) and n.id in excs for s in loud for n in ast.walk(s)):
        return None
    yexpr = None if yielded in (None, "self") else yielded
    ystmt = ast.Expr(value=ast.Yield(value=yexpr))
    handler = ast.ExceptHandler(type=ast.Name(id="BaseException", ctx=ast.Load()), name=None, body=[s for s in loud if not isinstance(s, ast.Pass)] + [ast.Raise(exc=None, cause=None)])
    body = pre + ebody + [ast.Try(body=[ystmt], handlers=[handler], orelse=[], finalbody=[])]
    args = copy.deepcopy(init.args)
    args.args = args.args[1:]
    fn = ast.FunctionDef(name=cnode.name, args=args, body=body, decorator_list=[], returns=None, type_comment=None, type_params=[])
    ast.copy_location(fn, cnode)
    for n in ast.walk(fn):
        if not hasattr(n, "lineno"):
            ast.copy_location(n, cnode)
    ast.fix_missing_locations(fn)
    fn._yields_self = yielded == "self"
    return fn


def inline_context_managers(trees, unknown, report):
    """returns the set of relpaths changed"""
    if not unknown:
        return set()
    cms = {}  # name -> (rel, generator-form FunctionDef, original node)
    for rel, tree in trees.items():
        for st in tree.body:
            if isinstance(st, ast.FunctionDef) and (rel, st.name) in unknown and any(_is_cm_decorator(d) for d in st.decorator_list) and len(st.decorator_list) == 1:
                fn = copy.deepcopy(st)
                fn.decorator_list = []
                fn._yields_self = False
                cms[st.name] = (rel, fn, st)
            elif isinstance(st, ast.ClassDef):
                ms = [x for x in st.body if isinstance(x, ast.FunctionDef)]
                if ms and all((rel, f"{st.name}.{m.name}") in unknown for m in ms):
                    fn = _class_as_generator(st)
                    if fn is not None:
                        cms[st.name] = (rel, fn, st)
    if not cms:
        return set()
    # referenced only as `with NAME(..)`
    for name in list(cms):
        with_calls = 0
        for tree in trees.values():
            for n in ast.walk(tree):
                if isinstance(n, (ast.With, ast.AsyncWith)):
                    for it in n.items:
                        if isinstance(it.context_expr, ast.Call) and isinstance(it.context_expr.func, ast.Name) and it.context_expr.func.id == name:
                            with_calls += 1
        calls, other = references(trees.values(), name, method=False)
        if other or calls != with_calls or with_calls == 0:
            del cms[name]
    if not cms:
        return set()
    changed = set()
    failed = set()
    for rel, tree in trees.items():
        visible = {n for n, (r, _, _) in cms.items() if r == rel}
        for st in ast.walk(tree):
            if isinstance(st, ast.ImportFrom):
                for al in st.names:
                    if al.asname is None and al.name in cms:
                        visible.add(al.name)
        if not visible:
            continue
        for q, fnode, cls in functions_of(tree):
            inl = Inliner({}, report)
            inl.caller_names = _names(fnode)
            inl.fnode = fnode
            inl.cls = cls

            def block(stmts):
                out = []
                for s in stmts:
                    for f in ("body", "orelse", "finalbody"):
                        if hasattr(s, f) and isinstance(getattr(s, f), list) and not isinstance(s, (ast.FunctionDef, ast.AsyncFunctionDef, ast.ClassDef)):
                            setattr(s, f, block(getattr(s, f)))
                    if isinstance(s, ast.Try):
                        for h in s.handlers:
                            h.body = block(h.body)
                    out.extend(one(s))
                return out

            def one(s):
                if not (isinstance(s, ast.With) and len(s.items) == 1):
                    return [s]
                it = s.items[0]
                c = it.context_expr
                if not (isinstance(c, ast.Call) and isinstance(c.func, ast.Name) and c.func.id in visible):
                    return [s]
                name = c.func.id
                _, gen, _ = cms[name]
                h = Helper(rel, name, gen, None)
                site = _yield_sites(h.body)
                if not h.ok or h.has_nested or site is None or len(site) > 2:
                    failed.add(name)
                    return [s]
                if it.optional_vars is not None and (gen._yields_self or not isinstance(it.optional_vars, ast.Name)):
                    failed.add(name)
                    return [s]
                inst = inl.instantiate(h, c, None, s)
                if inst is None:
                    failed.add(name)
                    return [s]
                prologue, body = inst
                for k, (lst, i) in enumerate(_yield_sites(body)):
                    y = lst[i].value
                    repl = []
                    if it.optional_vars is not None:
                        repl.append(ast.copy_location(ast.Assign(targets=[copy.deepcopy(it.optional_vars)], value=y.value if y.value is not None else ast.Constant(value=None)), s))
                    repl.extend(copy.deepcopy(s.body) if k else s.body)
                    lst[i:i + 1] = repl
                new = prologue + body
                for n in new:
                    ast.fix_missing_locations(ast.copy_location(n, s) if not hasattr(n, "lineno") else n)
                inl.caller_names |= _names(ast.Module(body=new, type_ignores=[]))
                report.append(("inlined-context-manager", f"{rel}:{q}:{name}"))
                changed.add(rel)
                return new

            fnode.body = block(fnode.body)
    # drop definitions that are no longer referenced
    for name, (rel, gen, orig) in cms.items():
        if name in failed:
            continue
        calls, other = references(trees.values(), name, method=False)
        if calls == 0 and other == 0:
            tree = trees[rel]
            tree.body = [x for x in tree.body if x is not orig]
            report.append(("removed-helper", f"{rel}:{name}"))
            for t in trees.values():
                for st in list(ast.walk(t)):
                    if isinstance(st, ast.ImportFrom) and any(a.name == name for a in st.names):
                        st.names = [a for a in st.names if a.name != name] or st.names
            changed.add(rel)
    return changed
