"""Statement-level control-flow graph with exception edges, dominators and
reachability queries (hand-built: the stdlib has no CFG).

Nodes: entry / exit (normal) / raise (exceptional exit) / stmt / test / iter /
handler / with.  Edges carry labels: next, true, false, body, exhausted, exc,
return, break, continue.

Every node that may raise (contains a Call, a Subscript load, a Raise or an
Assert) gets an ``exc`` edge to each handler of the innermost enclosing ``try``
whose class may match (builtin hierarchy known statically) and, unless a
matching handler certainly catches, onwards to the next enclosing ``try`` or
to the function's exceptional exit.  ``finally`` bodies are duplicated per
continuation kind (normal / exceptional / return).
"""
import ast

from .loader import AnalysisError

# builtin exception hierarchy (child -> parent), enough for the package
EXC_PARENT = {
    "BaseException": None,
    "Exception": "BaseException",
    "ArithmeticError": "Exception",
    "ZeroDivisionError": "ArithmeticError",
    "OverflowError": "ArithmeticError",
    "AssertionError": "Exception",
    "AttributeError": "Exception",
    "EOFError": "Exception",
    "ImportError": "Exception",
    "ModuleNotFoundError": "ImportError",
    "LookupError": "Exception",
    "IndexError": "LookupError",
    "KeyError": "LookupError",
    "NameError": "Exception",
    "OSError": "Exception",
    "IOError": "OSError",
    "FileNotFoundError": "OSError",
    "RuntimeError": "Exception",
    "NotImplementedError": "RuntimeError",
    "RecursionError": "RuntimeError",
    "StopIteration": "Exception",
    "TypeError": "Exception",
    "ValueError": "Exception",
    "UnicodeError": "ValueError",
    "UnicodeDecodeError": "UnicodeError",
    "UnicodeEncodeError": "UnicodeError",
    "JSONDecodeError": "ValueError",
    "json.decoder.JSONDecodeError": "ValueError",
    "struct.error": "Exception",
    "StructError": "Exception",
    "error": "Exception",
    "GeneratorExit": "BaseException",
    "KeyboardInterrupt": "BaseException",
    # package classes
    "UnknownType": "ValueError",
    "SchemaParseException": "Exception",
    "SchemaResolutionError": "Exception",
    "SchemaRepositoryError": "Exception",
    "ValidationError": "Exception",
}


def exc_ancestors(name):
    out = []
    seen = set()
    while name is not None and name not in seen:
        seen.add(name)
        out.append(name)
        name = EXC_PARENT.get(name, "Exception" if name not in EXC_PARENT else None)
    return out


def handler_names(h):
    """exception class names an except clause names; [] = bare except"""
    if h.type is None:
        return []
    if isinstance(h.type, ast.Tuple):
        return [ast.unparse(e) for e in h.type.elts]
    return [ast.unparse(h.type)]


def handler_may_match(h, raised):
    """raised: class name or None (unknown). Returns 'no' | 'maybe' | 'yes'."""
    names = handler_names(h)
    if not names:
        return "yes"
    if any(n in ("BaseException",) for n in names):
        return "yes"
    if raised is None:
        if any(n == "Exception" for n in names):
            return "yes"
        return "maybe"
    anc = exc_ancestors(raised)
    short = [a.split(".")[-1] for a in anc]
    for n in names:
        if n in anc or n.split(".")[-1] in short:
            return "yes"
    # the raised class may be a subclass unknown to us only if not in table
    if raised not in EXC_PARENT and raised.split(".")[-1] not in EXC_PARENT:
        return "maybe"
    return "no"


class Node:
    __slots__ = ("id", "kind", "ast", "stmt", "succ", "pred", "label")

    def __init__(self, nid, kind, node=None, stmt=None, label=""):
        self.id = nid
        self.kind = kind
        self.ast = node
        self.stmt = stmt
        self.succ = []
        self.pred = []
        self.label = label

    @property
    def lineno(self):
        return getattr(self.ast, "lineno", None) or getattr(self.stmt, "lineno", 0)

    def __repr__(self):
        t = ""
        if self.ast is not None:
            try:
                t = ast.unparse(self.ast).split("\n")[0][:50]
            except Exception:
                t = type(self.ast).__name__
        return f"<{self.id}:{self.kind} {t}>"


def may_raise(node):
    if node is None:
        return False
    for n in ast.walk(node):
        # isinstance(<name>, <name or tuple of names>) of the builtin does not raise
        if isinstance(n, ast.Call) and isinstance(n.func, ast.Name) and n.func.id == "isinstance" and len(n.args) == 2 and not n.keywords and isinstance(n.args[0], ast.Name) and (isinstance(n.args[1], (ast.Name, ast.Attribute)) or (isinstance(n.args[1], ast.Tuple) and all(isinstance(x, (ast.Name, ast.Attribute)) for x in n.args[1].elts))):
            continue
        if isinstance(n, (ast.Call, ast.Raise, ast.Assert, ast.Yield, ast.YieldFrom)):
            return True
        if isinstance(n, ast.Subscript) and isinstance(n.ctx, (ast.Load, ast.Del)):
            return True
        if isinstance(n, (ast.FunctionDef, ast.Lambda)):
            continue
    return False


def raised_class(stmt):
    """class name raised by an explicit `raise X(...)` / `raise X`, else None"""
    if isinstance(stmt, ast.Raise) and stmt.exc is not None:
        e = stmt.exc
        if isinstance(e, ast.Call):
            e = e.func
        if isinstance(e, (ast.Name, ast.Attribute)):
            return ast.unparse(e)
    return None


class _Frame:
    """exception / finally context while building"""

    def __init__(self, handlers=None, handler_nodes=None, finalbody=None, outer=None):
        self.handlers = handlers or []
        self.handler_nodes = handler_nodes or []
        self.finalbody = finalbody
        self.outer = outer


class CFG:
    def __init__(self, fnode):
        self.fnode = fnode
        self.nodes = []
        self.entry = self._new("entry")
        self.exit = self._new("exit")
        self.raise_exit = self._new("raise")
        self._sub = {}  # id(ast sub node) -> Node
        self._loops = []  # (continue target, break collector list)
        self._frame = None
        self._reraise_targets = []
        body = fnode.body if hasattr(fnode, "body") else [fnode]
        ends = self._block(body, [(self.entry, "next")])
        for (n, lab) in ends:
            self._edge(n, self.exit, lab)
        self._dom = None
        self._pdom = None

    # -------------------------------------------------------------- building
    def _new(self, kind, node=None, stmt=None, label=""):
        n = Node(len(self.nodes), kind, node, stmt, label)
        self.nodes.append(n)
        if node is not None:
            for s in ast.walk(node):
                if id(s) not in self._sub:
                    self._sub[id(s)] = n
        return n

    def _edge(self, a, b, label="next"):
        if (b, label) not in a.succ:
            a.succ.append((b, label))
            b.pred.append((a, label))

    def _connect(self, pending, node):
        for (n, lab) in pending:
            self._edge(n, node, lab)

    def _exc_edges(self, node, raised=None, frame="__cur__"):
        """connect node's exception edge(s) through the enclosing try frames"""
        fr = self._frame if frame == "__cur__" else frame
        while fr is not None:
            caught = False
            for h, hn in zip(fr.handlers, fr.handler_nodes):
                m = handler_may_match(h, raised)
                if m in ("yes", "maybe"):
                    self._edge(node, hn, "exc")
                if m == "yes":
                    caught = True
                    break
            if caught:
                return
            if fr.finalbody:
                # run the finally body on the exceptional continuation, then go on outward
                saved = self._frame
                self._frame = fr.outer
                ends = self._block(fr.finalbody, [(node, "exc")])
                self._frame = saved
                nxt = self._new("stmt", None, None, "finally-exc-end")
                self._connect(ends, nxt)
                node = nxt
            fr = fr.outer
        self._edge(node, self.raise_exit, "exc")

    def _simple(self, stmt, pending):
        n = self._new("stmt", stmt, stmt)
        self._connect(pending, n)
        if may_raise(stmt) and not isinstance(stmt, ast.Raise):
            self._exc_edges(n)
        return n

    def _block(self, stmts, pending):
        for s in stmts:
            pending = self._stmt(s, pending)
        return pending

    def _run_finally_then(self, pending, upto_frame, target, label):
        """for return/break/continue: run enclosing finally bodies, then jump"""
        fr = self._frame
        cur = pending
        while fr is not None and fr is not upto_frame:
            if fr.finalbody:
                saved = self._frame
                self._frame = fr.outer
                cur = self._block(fr.finalbody, cur)
                self._frame = saved
            fr = fr.outer
        for (n, lab) in cur:
            self._edge(n, target, label if lab in ("next",) else lab)

    def _stmt(self, s, pending):
        if isinstance(s, (ast.FunctionDef, ast.AsyncFunctionDef, ast.ClassDef)):
            n = self._new("stmt", None, s, "def " + s.name)
            self._connect(pending, n)
            return [(n, "next")]
        if isinstance(s, ast.If):
            t = self._new("test", s.test, s)
            self._connect(pending, t)
            if may_raise(s.test):
                self._exc_edges(t)
            a = self._block(s.body, [(t, "true")])
            b = self._block(s.orelse, [(t, "false")])
            return a + b
        if isinstance(s, ast.While):
            t = self._new("test", s.test, s)
            self._connect(pending, t)
            if may_raise(s.test):
                self._exc_edges(t)
            brk = []
            self._loops.append((t, brk, self._frame))
            body_end = self._block(s.body, [(t, "true")])
            self._loops.pop()
            for (n, lab) in body_end:
                self._edge(n, t, lab)
            always = isinstance(s.test, ast.Constant) and bool(s.test.value)
            after = [] if always else self._block(s.orelse, [(t, "false")])
            return after + brk
        if isinstance(s, (ast.For, ast.AsyncFor)):
            it = self._new("iter", ast.Tuple(elts=[s.iter, s.target], ctx=ast.Load()), s)
            it.ast.lineno = s.lineno
            self._sub[id(s.iter)] = it
            self._connect(pending, it)
            self._exc_edges(it)  # iteration may raise (generator body)
            brk = []
            self._loops.append((it, brk, self._frame))
            body_end = self._block(s.body, [(it, "body")])
            self._loops.pop()
            for (n, lab) in body_end:
                self._edge(n, it, lab)
            after = self._block(s.orelse, [(it, "exhausted")])
            return after + brk
        if isinstance(s, ast.Break):
            n = self._new("stmt", s, s)
            self._connect(pending, n)
            tgt, brk, fr = self._loops[-1]
            # finally bodies between here and the loop are rare in this package: run them
            fr_cur = self._frame
            cur = [(n, "break")]
            while fr_cur is not None and fr_cur is not fr:
                if fr_cur.finalbody:
                    saved = self._frame
                    self._frame = fr_cur.outer
                    cur = self._block(fr_cur.finalbody, cur)
                    self._frame = saved
                fr_cur = fr_cur.outer
            brk.extend(cur)
            return []
        if isinstance(s, ast.Continue):
            n = self._new("stmt", s, s)
            self._connect(pending, n)
            tgt, brk, fr = self._loops[-1]
            self._run_finally_then([(n, "continue")], fr, tgt, "continue")
            return []
        if isinstance(s, ast.Return):
            n = self._new("stmt", s, s)
            self._connect(pending, n)
            if may_raise(s):
                self._exc_edges(n)
            self._run_finally_then([(n, "return")], None, self.exit, "return")
            return []
        if isinstance(s, ast.Raise):
            n = self._new("stmt", s, s)
            self._connect(pending, n)
            rc = raised_class(s)
            if s.exc is None and self._reraise_targets:
                rc = None
            self._exc_edges(n, rc)
            return []
        if isinstance(s, ast.Try):
            outer = self._frame
            hnodes = [self._new("handler", None, h, "except " + (ast.unparse(h.type) if h.type else "")) for h in s.handlers]
            for hn, h in zip(hnodes, s.handlers):
                hn.ast = h.type
            body_frame = _Frame(list(s.handlers), hnodes, s.finalbody or None, outer)
            self._frame = body_frame
            body_end = self._block(s.body, pending)
            # else / handlers run with the finally (if any) still pending but without the handlers
            rest_frame = _Frame([], [], s.finalbody or None, outer) if s.finalbody else outer
            self._frame = rest_frame
            else_end = self._block(s.orelse, body_end)
            ends = list(else_end)
            for hn, h in zip(hnodes, s.handlers):
                self._reraise_targets.append(h)
                ends += self._block(h.body, [(hn, "next")])
                self._reraise_targets.pop()
            self._frame = outer
            if s.finalbody:
                ends = self._block(s.finalbody, ends)
            return ends
        if isinstance(s, (ast.With, ast.AsyncWith)):
            w = self._new("with", ast.Tuple(elts=[i.context_expr for i in s.items], ctx=ast.Load()), s)
            self._connect(pending, w)
            self._exc_edges(w)
            return self._block(s.body, [(w, "next")])
        if isinstance(s, ast.Match):  # pragma: no cover - not used by the package
            raise AnalysisError("match statement is not modelled by the CFG")
        n = self._simple(s, pending)
        return [(n, "next")]

    # --------------------------------------------------------------- queries
    def node_of(self, sub):
        """CFG node that evaluates the given ast (sub)node"""
        n = self._sub.get(id(sub))
        if n is None:
            raise AnalysisError("ast node is not part of this CFG")
        return n

    def has(self, sub):
        return id(sub) in self._sub

    def reachable_from(self, start, avoid=(), skip_labels=(), skip_edges=()):
        """nodes reachable from `start` (start itself excluded unless on a cycle)"""
        avoid = set(avoid)
        seen = set()
        todo = [start]
        first = True
        while todo:
            n = todo.pop()
            for (m, lab) in n.succ:
                if lab in skip_labels or (n, m, lab) in skip_edges or m in avoid:
                    continue
                if m not in seen:
                    seen.add(m)
                    todo.append(m)
        return seen

    def reachable_via(self, start, label, avoid=(), skip_labels=()):
        """nodes reachable from start when the first edge taken carries `label`"""
        seen = set()
        avoid = set(avoid)
        for (m, lab) in start.succ:
            if lab == label and m not in avoid:
                seen.add(m)
                seen |= self.reachable_from(m, avoid, skip_labels)
        return seen

    def live_nodes(self):
        return {self.entry} | self.reachable_from(self.entry)

    def dominators(self):
        if self._dom is not None:
            return self._dom
        live = self.live_nodes()
        dom = {n: set(live) for n in live}
        dom[self.entry] = {self.entry}
        changed = True
        order = sorted(live, key=lambda n: n.id)
        while changed:
            changed = False
            for n in order:
                if n is self.entry:
                    continue
                preds = [p for (p, _) in n.pred if p in live]
                if not preds:
                    continue
                new = set.intersection(*(dom[p] for p in preds)) | {n}
                if new != dom[n]:
                    dom[n] = new
                    changed = True
        self._dom = dom
        return dom

    def dominates(self, a, b):
        d = self.dominators()
        return b in d and a in d[b]

    def must_pass(self, a, b, via, skip_labels=(), skip_edges=()):
        """every path from a to b passes through a node of `via` (vacuously true if b unreachable from a)"""
        return b not in self.reachable_from(a, avoid=via, skip_labels=skip_labels, skip_edges=skip_edges)

    def edge_dominates(self, test, label, target):
        """target is reachable from entry only through the `label` out-edge of `test`:
        removing that edge makes target unreachable."""
        skip = {(test, m, lab) for (m, lab) in test.succ if lab == label}
        live = {self.entry} | self.reachable_from(self.entry, skip_edges=skip)
        return target not in live

    def guards_of(self, target):
        """[(test node, label)] such that the labelled out-edge of the test dominates target"""
        out = []
        for n in self.nodes:
            if n.kind in ("test", "iter") and self.dominates(n, target) and n is not target:
                for lab in {l for (_, l) in n.succ if l in ("true", "false", "body", "exhausted")}:
                    if self.edge_dominates(n, lab, target):
                        out.append((n, lab))
        return out

    def correlated_skip_edges(self, target):
        """edges infeasible on any path to `target` because they contradict one of its guards:
        when the out-edge `lab` of test t2 dominates target, another test t1 with the same
        (normalised) condition whose names are never assigned in the function must take `lab` too"""
        assigned = set()
        stores = {}
        for n in self.nodes:
            st = n.ast
            if st is None:
                continue
            for x in ast.walk(st):
                if isinstance(x, ast.Name) and isinstance(x.ctx, (ast.Store, ast.Del)):
                    assigned.add(x.id)
                    stores.setdefault(x.id, []).append(n)
        skip = set()
        for (t2, lab2) in self.guards_of(target):
            if t2.kind != "test":
                continue
            txt = ast.unparse(t2.ast)
            names = {x.id for x in ast.walk(t2.ast) if isinstance(x, ast.Name)}
            # a name bound exactly once, before the test (the binding dominates it), is as good as never assigned:
            # every later test of the same condition sees the same value
            if any(nm in assigned and not (len(stores.get(nm, ())) == 1 and stores[nm][0] is not t2 and self.dominates(stores[nm][0], t2)) for nm in names):
                continue
            for t1 in self.nodes:
                if t1 is not t2 and t1.kind == "test" and ast.unparse(t1.ast) == txt:
                    for (m, lab) in t1.succ:
                        if lab in ("true", "false") and lab != lab2:
                            skip.add((t1, m, lab))
        return skip

    def paths(self, start, goal, max_paths=2000, loop_bound=2):
        """enumerate paths start->goal with every node visited at most loop_bound times (thorough tier)"""
        out = []
        stack = [(start, [start], {start.id: 1})]
        while stack and len(out) < max_paths:
            n, path, cnt = stack.pop()
            if n is goal and len(path) > 1:
                out.append(path)
                continue
            for (m, lab) in n.succ:
                c = cnt.get(m.id, 0)
                if c >= loop_bound:
                    continue
                c2 = dict(cnt)
                c2[m.id] = c + 1
                stack.append((m, path + [m], c2))
        return out


_cache = {}


def cfg_of(finfo):
    key = id(finfo.node)
    c = _cache.get(key)
    if c is None or c.fnode is not finfo.node:
        c = CFG(finfo.node)
        _cache[key] = c
    return c
