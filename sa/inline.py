"""Inlining of private helpers that the reference inventory does not know.

"Extract function" moves code the rules know into a helper they have never seen, and the anchors, the
control-flow context and the data flow of that code leave the function the rules inspect.  After
sa/refnorm.py has paired renamed functions, a private function (or method) that is still unknown, is
referenced only by direct calls, and has a body this pass understands is substituted back at its call
sites; the rules then see the code where it used to be.  A helper that cannot be inlined (generator used
in a `for`, returns inside loops used as a value, *args, stored in a table, ...) is left alone and the
rules see the call.

Nothing is decided here.  The transformation is semantics-preserving for the constructs accepted:
  * call in statement position  `H(a)` / `x = H(a)` / `return H(a)` / `yield from H(a)`
  * call nested in the expression of a simple statement: hoisted into `tmp = H(a)` first (only when
    nothing with an effect precedes it in the statement: see _hoistable)
  * a helper that is a single `return <expr>` is substituted as an expression anywhere
Parameters are substituted directly when the argument is atomic (name, constant, attribute / constant
subscript of a name) and the parameter is never rebound, else bound to a fresh local first.  Locals of the
helper keep their names unless they clash with a name of the caller.
Inlined nodes carry the line of the call site (reports point at code that exists in the caller) and a
unique column so that allocation sites and keys stay distinct.
"""
import ast
import copy

from .refnorm import functions_of, local_names, _all_args

_counter = [0]


def _strip_doc(body):
    if body and isinstance(body[0], ast.Expr) and isinstance(body[0].value, ast.Constant) and isinstance(body[0].value.value, str):
        return body[1:]
    return body


def _atomic(e):
    if isinstance(e, (ast.Name, ast.Constant)):
        return True
    if isinstance(e, ast.Attribute):
        return _atomic(e.value)
    if isinstance(e, ast.Subscript):
        return _atomic(e.value) and isinstance(e.slice, ast.Constant)
    if isinstance(e, ast.UnaryOp) and isinstance(e.operand, ast.Constant):
        return True
    return False


def _names(node):
    return {n.id for n in ast.walk(node) if isinstance(n, ast.Name)} | {n.arg for n in ast.walk(node) if isinstance(n, ast.arg)}


class Helper:
    def __init__(self, rel, qual, node, cls):
        self.rel, self.qual, self.node, self.cls = rel, qual, node, cls
        self.name = node.name
        self.body = _strip_doc(node.body)
        decos = [ast.unparse(d) for d in node.decorator_list]
        self.static = "staticmethod" in decos
        self.ok = all(d in ("staticmethod",) for d in decos)
        a = node.args
        if a.vararg or a.kwarg or a.posonlyargs:
            self.ok = False
        self.params = [x.arg for x in a.args] + [x.arg for x in a.kwonlyargs]
        self.defaults = {}
        pos = [x.arg for x in a.args]
        for p, d in zip(pos[len(pos) - len(a.defaults):], a.defaults):
            self.defaults[p] = d
        for p, d in zip([x.arg for x in a.kwonlyargs], a.kw_defaults):
            if d is not None:
                self.defaults[p] = d
        self.is_gen = any(isinstance(n, (ast.Yield, ast.YieldFrom)) for n in _walk_own(node))
        self.has_nested = any(isinstance(n, (ast.FunctionDef, ast.AsyncFunctionDef, ast.ClassDef, ast.Lambda)) for n in _walk_own(node) if n is not node)
        if any(isinstance(n, (ast.Global, ast.Nonlocal)) for n in ast.walk(node)):
            self.ok = False
        self.single_expr = len(self.body) == 1 and isinstance(self.body[0], ast.Return) and self.body[0].value is not None and not self.is_gen
        self.expr = self.body[0].value if self.single_expr else None
        self.from_branches = False
        # `if c: return A else: return B` (possibly nested): the conditional expression `A if c else B`
        if not self.single_expr and not self.is_gen:
            def as_expr(stmts):
                if len(stmts) == 1 and isinstance(stmts[0], ast.Return) and stmts[0].value is not None:
                    return stmts[0].value
                if len(stmts) == 1 and isinstance(stmts[0], ast.If) and stmts[0].orelse:
                    a, b = as_expr(stmts[0].body), as_expr(stmts[0].orelse)
                    if a is not None and b is not None:
                        return ast.copy_location(ast.IfExp(test=stmts[0].test, body=a, orelse=b), stmts[0])
                if len(stmts) == 2 and isinstance(stmts[0], ast.If) and not stmts[0].orelse:
                    a, b = as_expr(stmts[0].body), as_expr(stmts[1:])
                    if a is not None and b is not None:
                        return ast.copy_location(ast.IfExp(test=stmts[0].test, body=a, orelse=b), stmts[0])
                return None

            e = as_expr(self.body)
            if e is not None:
                self.expr = e
                self.single_expr = True
                self.from_branches = True
        # a generator that is one loop yielding one expression is a generator expression
        if self.is_gen and len(self.body) == 1 and isinstance(self.body[0], ast.For) and not self.body[0].orelse and len(self.body[0].body) == 1:
            y = self.body[0].body[0]
            if isinstance(y, ast.Expr) and isinstance(y.value, ast.Yield) and y.value.value is not None and not any(isinstance(n, (ast.Yield, ast.YieldFrom)) for n in ast.walk(y.value.value)):
                loop = self.body[0]
                self.expr = ast.copy_location(ast.GeneratorExp(elt=y.value.value, generators=[ast.comprehension(target=loop.target, iter=loop.iter, ifs=[], is_async=0)]), loop)
                self.single_expr = True
        self.rebound = {n.id for n in ast.walk(node) if isinstance(n, ast.Name) and isinstance(n.ctx, (ast.Store, ast.Del))}
        self.self_recursive = any(isinstance(n, ast.Call) and _callee_name(n) == self.name for n in ast.walk(node))
        if self.self_recursive:
            self.ok = False


def _walk_own(fnode):
    """nodes of the function excluding nested function bodies"""
    todo = list(ast.iter_child_nodes(fnode))
    while todo:
        n = todo.pop()
        yield n
        if isinstance(n, (ast.FunctionDef, ast.AsyncFunctionDef, ast.Lambda, ast.ClassDef)):
            continue
        todo.extend(ast.iter_child_nodes(n))


def _callee_name(call):
    f = call.func
    if isinstance(f, ast.Name):
        return f.id
    if isinstance(f, ast.Attribute):
        return f.attr
    return None


def _returns_at_tail(body):
    """every `return` of the block is in tail position (so it can become an assignment)"""
    def tail_ok(stmts):
        for i, s in enumerate(stmts):
            last = i == len(stmts) - 1
            if isinstance(s, ast.Return):
                if not last:
                    return False
            elif isinstance(s, ast.If):
                if last:
                    if not (tail_ok(s.body) and tail_ok(s.orelse)):
                        return False
                elif _has_return([s]):
                    return False
            elif isinstance(s, ast.With):
                if last:
                    if not tail_ok(s.body):
                        return False
                elif _has_return([s]):
                    return False
            elif isinstance(s, ast.Try):
                if last and not s.finalbody:
                    if not (tail_ok(s.body) and tail_ok(s.orelse) and all(tail_ok(h.body) for h in s.handlers)):
                        return False
                    if s.orelse and _has_return(s.body):
                        return False
                elif _has_return([s]):
                    return False
            elif _has_return([s]):
                return False
        return True

    return tail_ok(body)


def _has_return(stmts):
    for s in stmts:
        for n in [s] + list(_walk_own_stmt(s)):
            if isinstance(n, ast.Return):
                return True
    return False


def _walk_own_stmt(s):
    todo = list(ast.iter_child_nodes(s))
    while todo:
        n = todo.pop()
        yield n
        if isinstance(n, (ast.FunctionDef, ast.AsyncFunctionDef, ast.Lambda, ast.ClassDef)):
            continue
        todo.extend(ast.iter_child_nodes(n))


def _falls_off(stmts):
    if not stmts:
        return True
    s = stmts[-1]
    if isinstance(s, (ast.Return, ast.Raise)):
        return False
    if isinstance(s, ast.If):
        return _falls_off(s.body) or _falls_off(s.orelse)
    if isinstance(s, ast.With):
        return _falls_off(s.body)
    if isinstance(s, ast.Try) and not s.finalbody:
        return _falls_off(s.orelse if s.orelse else s.body) or any(_falls_off(h.body) for h in s.handlers)
    return True


def _convert_returns(stmts, make):
    """replace tail returns by make(value) statements (in place)"""
    out = []
    for s in stmts:
        if isinstance(s, ast.Return):
            out.extend(make(s.value, s))
        else:
            if isinstance(s, ast.If):
                s.body = _convert_returns(s.body, make) or [ast.copy_location(ast.Pass(), s)]
                s.orelse = _convert_returns(s.orelse, make)
            elif isinstance(s, ast.With):
                s.body = _convert_returns(s.body, make) or [ast.copy_location(ast.Pass(), s)]
            elif isinstance(s, ast.Try):
                s.body = _convert_returns(s.body, make) or [ast.copy_location(ast.Pass(), s)]
                s.orelse = _convert_returns(s.orelse, make)
                for h in s.handlers:
                    h.body = _convert_returns(h.body, make) or [ast.copy_location(ast.Pass(), h)]
            out.append(s)
    return out


def _loop_return_rewrite(body, make, falls_value):
    """Body with returns inside exactly one top-level `for` (no nested loop around a return, no break, no else):
         pre; for ..: .. return v ..; post   ->   pre; for ..: .. <make(v)>; break ..  else: <post with returns made>
    so that a helper that searches with early returns can stand where its call stood.  None when not applicable."""
    idx = [i for i, s in enumerate(body) if isinstance(s, (ast.For, ast.While)) and _has_return([s])]
    if len(idx) != 1 or not isinstance(body[idx[0]], ast.For):
        return None
    i = idx[0]
    loop = body[i]
    pre, post = body[:i], body[i + 1:]
    if _has_return(pre) or loop.orelse or not _returns_at_tail(post):
        return None
    for n in _walk_own_stmt(loop):
        if isinstance(n, ast.Break):
            return None
        if isinstance(n, (ast.For, ast.While, ast.AsyncFor)) and _has_return([n]):
            return None
        if isinstance(n, ast.Try) and n.finalbody and _has_return([n]):
            return None

    def conv(stmts):
        out = []
        for s in stmts:
            if isinstance(s, ast.Return):
                out.extend(make(s.value, s))
                out.append(ast.copy_location(ast.Break(), s))
                break
            if isinstance(s, ast.If):
                s.body = conv(s.body) or [ast.copy_location(ast.Pass(), s)]
                s.orelse = conv(s.orelse)
            elif isinstance(s, ast.With):
                s.body = conv(s.body) or [ast.copy_location(ast.Pass(), s)]
            elif isinstance(s, ast.Try):
                s.body = conv(s.body) or [ast.copy_location(ast.Pass(), s)]
                s.orelse = conv(s.orelse)
                for h in s.handlers:
                    h.body = conv(h.body) or [ast.copy_location(ast.Pass(), h)]
            out.append(s)
        return out

    loop.body = conv(loop.body)
    fell = _falls_off(post)
    tail = _convert_returns(post, make)
    if fell:
        tail = tail + list(falls_value())
    loop.orelse = tail
    return pre + [loop]


def _drop_self_assign(stmts):
    out = []
    for s in stmts:
        if isinstance(s, ast.Assign) and len(s.targets) == 1 and ast.unparse(s.targets[0]) == ast.unparse(s.value) and all(isinstance(n, (ast.Name, ast.Tuple, ast.Load, ast.Store)) for n in ast.walk(s.value)):
            continue
        for f in ("body", "orelse", "finalbody"):
            if isinstance(getattr(s, f, None), list) and not isinstance(s, (ast.FunctionDef, ast.AsyncFunctionDef, ast.ClassDef)):
                new = _drop_self_assign(getattr(s, f))
                if f == "body" and not new:
                    new = [ast.copy_location(ast.Pass(), s)]
                setattr(s, f, new)
        if isinstance(s, ast.Try):
            for h in s.handlers:
                h.body = _drop_self_assign(h.body) or [ast.copy_location(ast.Pass(), h)]
        out.append(s)
    return out


class _Subst(ast.NodeTransformer):
    def __init__(self, mapping, renames):
        self.mapping = mapping  # param -> expression
        self.renames = renames  # local -> new local

    def visit_Name(self, n):
        if n.id in self.mapping and isinstance(n.ctx, ast.Load):
            return copy.deepcopy(self.mapping[n.id])
        if n.id in self.renames:
            n.id = self.renames[n.id]
        return n

    def visit_arg(self, n):
        if n.arg in self.renames:
            n.arg = self.renames[n.arg]
        return n

    def visit_ExceptHandler(self, n):
        if n.name in self.renames:
            n.name = self.renames[n.name]
        self.generic_visit(n)
        return n


def _stamp(nodes, site, tag):
    _counter[0] += 1
    k = _counter[0]
    for top in nodes:
        for n in ast.walk(top):
            if hasattr(n, "lineno") or isinstance(n, (ast.stmt, ast.expr, ast.ExceptHandler, ast.arg, ast.keyword)):
                n._inlined_from = tag
                n.col_offset = 10000 * k + getattr(n, "col_offset", 0) + 100 * (getattr(n, "lineno", site.lineno) % 97)
                n.lineno = site.lineno
                n.end_lineno = getattr(site, "end_lineno", site.lineno)
                n.end_col_offset = n.col_offset + 1
    return nodes


_PURE = {"len", "isinstance", "int", "str", "float", "bool", "tuple", "list", "dict", "set", "frozenset", "type", "id", "repr", "abs", "min", "max", "sorted", "getattr", "hasattr"}


def _post_order_calls(e, out):
    for c in ast.iter_child_nodes(e):
        _post_order_calls(c, out)
    if isinstance(e, ast.Call):
        out.append(e)
    return out


def _hoistable(e, call, inl):
    """no call with a possible effect is completed before `call` in the evaluation of e"""
    inner = {id(n) for n in ast.walk(call)} - {id(call)}
    for c in _post_order_calls(e, []):
        if c is call:
            return True
        if id(c) in inner:
            continue
        if isinstance(c.func, ast.Name) and c.func.id in _PURE:
            continue
        if isinstance(c.func, ast.Attribute) and c.func.attr in ("get", "items", "keys", "values", "format", "join", "split", "rsplit", "startswith", "endswith"):
            continue
        h, _ = inl.target(c, inl.cls)
        if h is not None:
            continue  # another helper call: hoisted in order before this one
        return False
    return True


def first_evaluated(stmt, name):
    """the only read of `name` happens in the statement's own expression, unconditionally, before any call
    with a possible effect completes"""
    if isinstance(stmt, (ast.Expr, ast.Return, ast.Assign, ast.AnnAssign, ast.AugAssign)):
        e = stmt.value
    elif isinstance(stmt, (ast.If, ast.While, ast.Assert)):
        e = stmt.test
    elif isinstance(stmt, ast.For):
        e = stmt.iter
    elif isinstance(stmt, ast.Raise):
        e = stmt.exc
    else:
        return False
    if e is None:
        return False
    target = [n for n in ast.walk(e) if isinstance(n, ast.Name) and n.id == name and isinstance(n.ctx, ast.Load)]
    if len(target) != 1:
        return False
    # not under a lambda / comprehension / conditional operand
    blocked = set()
    for n in ast.walk(e):
        if isinstance(n, (ast.Lambda, ast.ListComp, ast.SetComp, ast.DictComp, ast.GeneratorExp)):
            blocked |= {id(x) for x in ast.walk(n)} - {id(n)}
        elif isinstance(n, ast.BoolOp):
            for v in n.values[1:]:
                blocked |= {id(x) for x in ast.walk(v)}
        elif isinstance(n, ast.IfExp):
            blocked |= {id(x) for x in ast.walk(n.body)} | {id(x) for x in ast.walk(n.orelse)}
    if id(target[0]) in blocked:
        return False
    # evaluation order: post-order; every call completed before the read must be harmless
    seq = []

    def post(n):
        for c in ast.iter_child_nodes(n):
            post(c)
        seq.append(n)

    post(e)
    for n in seq:
        if n is target[0]:
            return True
        if isinstance(n, ast.Call):
            if isinstance(n.func, ast.Name) and n.func.id in _PURE:
                continue
            return False
    return False


class Inliner:
    def __init__(self, helpers, report):
        self.helpers = helpers  # name -> Helper (module functions) ; (cls, name) -> Helper for methods
        self.report = report
        self.left = set()  # helper names with a call site that could not be inlined
        self.visible = set()
        self.bases = {}
        self.class_methods = {}

    # -- binding ------------------------------------------------------------------------------------
    def bind(self, h, call, recv):
        params = list(h.params)
        actual = {}
        if h.cls is not None and not h.static:
            if not params:
                return None
            actual[params[0]] = recv
            params = params[1:]
        if any(isinstance(a, ast.Starred) for a in call.args) or any(k.arg is None for k in call.keywords):
            return None
        if len(call.args) > len(params):
            return None
        for p, a in zip(params, call.args):
            actual[p] = a
        for k in call.keywords:
            if k.arg not in params or k.arg in actual:
                return None
            actual[k.arg] = k.value
        for p in params:
            if p not in actual:
                if p not in h.defaults:
                    return None
                actual[p] = h.defaults[p]
        return actual

    def live_after(self, name, stmt):
        """the caller may read `name` after `stmt` (so a helper local of that name must be renamed)"""
        fnode = self.fnode
        order = {}
        pm = {}

        def go(n):
            order[id(n)] = len(order)
            for c in ast.iter_child_nodes(n):
                pm[id(c)] = n
                go(c)

        go(fnode)
        if id(stmt) not in order:
            return name in self.caller_names
        inside = {id(n) for n in ast.walk(stmt)}
        end = max(order[i] for i in inside if i in order)
        loop = None
        x = pm.get(id(stmt))
        while x is not None:
            if isinstance(x, (ast.For, ast.AsyncFor, ast.While)):
                loop = x
            x = pm.get(id(x))
        loop_ids = {id(n) for n in ast.walk(loop)} if loop is not None else set()
        for n in ast.walk(fnode):
            if isinstance(n, ast.Name) and n.id == name and isinstance(n.ctx, ast.Load) and id(n) not in inside:
                if order[id(n)] > end or id(n) in loop_ids:
                    return True
            if isinstance(n, (ast.FunctionDef, ast.AsyncFunctionDef, ast.Lambda)) and n is not fnode:
                if any(isinstance(m, ast.Name) and m.id == name for m in ast.walk(n)):
                    return True  # closure
        return False

    def instantiate(self, h, call, recv, stmt, targets=None):
        """(prologue statements, body statements) of the helper for this call, params bound, locals renamed"""
        actual = self.bind(h, call, recv)
        if actual is None:
            return None
        body = copy.deepcopy(h.body)
        all_locals = local_names(h.node)
        locs = all_locals - set(h.params)
        argnames = set()
        for e in actual.values():
            argnames |= _names(e)
        # `T = H()` where every return of H is the same local L (or tuple of locals): L is spelled T
        retmap = {}
        if targets is not None and len(targets) == 1:
            rets = [n for st in body for n in [st] + list(_walk_own_stmt(st)) if isinstance(n, ast.Return)]
            tn = targets[0]
            tnames = [tn] if isinstance(tn, ast.Name) else (list(tn.elts) if isinstance(tn, ast.Tuple) else [])
            if rets and tnames and all(isinstance(x, ast.Name) for x in tnames) and not _falls_off(body):
                shapes = set()
                for r in rets:
                    v = r.value
                    vs = [v] if isinstance(v, ast.Name) else (list(v.elts) if isinstance(v, ast.Tuple) else [])
                    shapes.add(tuple(x.id if isinstance(x, ast.Name) else None for x in vs))
                if len(shapes) == 1:
                    ls = next(iter(shapes))
                    if len(ls) == len(tnames) and None not in ls and len(set(ls)) == len(ls):
                        for L, T in zip(ls, [x.id for x in tnames]):
                            if L not in all_locals:
                                continue
                            if T != L and T in all_locals:
                                continue
                            arg_is_T = L in actual and isinstance(actual[L], ast.Name) and actual[L].id == T
                            others = set()
                            for p, e2 in actual.items():
                                if p != L:
                                    others |= _names(e2)
                            if T in others or (T in argnames and not arg_is_T and L in actual):
                                continue
                            retmap[L] = T
        renames = {}
        suffix = h.name.strip("_")
        for l in sorted(locs):
            if l in retmap:
                if retmap[l] != l:
                    renames[l] = retmap[l]
            elif l in argnames or (l in self.caller_names and self.live_after(l, stmt)):
                renames[l] = f"{l}__{suffix}"
        mapping, prologue = {}, []
        uses = {}
        for n in ast.walk(ast.Module(body=body, type_ignores=[])):
            if isinstance(n, ast.Name) and isinstance(n.ctx, ast.Load):
                uses[n.id] = uses.get(n.id, 0) + 1
        nonatomic = [p for p, e in actual.items() if not _atomic(e)]
        for p, e in actual.items():
            if p not in h.rebound and (_atomic(e) or uses.get(p, 0) == 0):
                mapping[p] = e
            elif p not in h.rebound and uses.get(p, 0) == 1 and len(nonatomic) == 1 and body and first_evaluated(body[0], p):
                # the argument is evaluated exactly once and before anything else with an effect, as at the call
                mapping[p] = e
            elif p in retmap and isinstance(e, ast.Name) and e.id == retmap[p]:
                # x = H(x): the helper's updates of its parameter are the caller's variable
                if p != e.id:
                    renames[p] = e.id
            else:
                others = set()
                for p2, e2 in actual.items():
                    if p2 != p:
                        others |= _names(e2)
                clash = p in others or (p in self.caller_names and self.live_after(p, stmt) and not (isinstance(e, ast.Name) and e.id == p and p not in h.rebound))
                newp = f"{p}__{suffix}" if clash else p
                if newp != p:
                    renames[p] = newp
                if not (isinstance(e, ast.Name) and e.id == newp):
                    prologue.append(ast.Assign(targets=[ast.Name(id=newp, ctx=ast.Store())], value=copy.deepcopy(e), lineno=call.lineno, col_offset=0))
        sub = _Subst(mapping, renames)
        body = [sub.visit(s) for s in body]
        return prologue, body

    # -- expression level ----------------------------------------------------------------------------
    def expr_inline(self, h, call, recv):
        actual = self.bind(h, call, recv)
        if actual is None:
            return None
        expr = copy.deepcopy(h.expr)
        uses = {}
        for n in ast.walk(expr):
            if isinstance(n, ast.Name):
                uses[n.id] = uses.get(n.id, 0) + 1
        bound_inside = {n.id for n in ast.walk(expr) if isinstance(n, ast.Name) and isinstance(n.ctx, ast.Store)} | {a.arg for a in ast.walk(expr) if isinstance(a, ast.arg)}
        for p, e in actual.items():
            if not (_atomic(e) or uses.get(p, 0) <= 1):
                return None
            if _names(e) & bound_inside:
                return None
        new = _Subst(actual, {}).visit(expr)
        _stamp([new], call, h.name)
        return new

    # -- lookup --------------------------------------------------------------------------------------
    def target(self, call, cls):
        """(Helper, receiver expr) when the call is a direct call of a helper"""
        f = call.func
        if isinstance(f, ast.Name) and f.id in self.helpers and f.id in self.visible:
            return self.helpers[f.id], None
        if isinstance(f, ast.Attribute) and isinstance(f.value, ast.Name):
            if f.value.id in ("self", "cls") and cls is not None:
                # the method as the class sees it: its own definition, else the nearest base's
                seen, todo = set(), [cls]
                while todo:
                    c = todo.pop(0)
                    if c in seen:
                        continue
                    seen.add(c)
                    if (c, f.attr) in self.helpers:
                        return self.helpers[(c, f.attr)], f.value
                    if f.attr in self.class_methods.get(c, ()):
                        break  # defined (known) in this class: not a helper
                    todo.extend(self.bases.get(c, ()))
            if (f.value.id, f.attr) in self.helpers and self.helpers[(f.value.id, f.attr)].static:
                return self.helpers[(f.value.id, f.attr)], None
        if isinstance(f, ast.Attribute) and _atomic(f.value) and not (isinstance(f.value, ast.Name) and f.value.id in ("self", "cls")):
            # `<obj>.m(..)` where m is a helper method and no other class of the program has a method m:
            # the call can only be that helper's, with <obj> as the receiver
            owners = [k for k in self.helpers if isinstance(k, tuple) and k[1] == f.attr]
            if len(owners) == 1 and not self.helpers[owners[0]].static and f.attr not in self.helpers and not any(f.attr in ms for c, ms in self.class_methods.items() if c != owners[0][0]):
                return self.helpers[owners[0]], f.value
        return None, None

    # -- statement walk ------------------------------------------------------------------------------
    def process_function(self, fnode, cls):
        self.caller_names = _names(fnode)
        self.fnode = fnode
        self.cls = cls
        self.changed = False
        if cls is not None:
            # `<Class>.m(self, a)` for a helper method m of the class itself is `self.m(a)`
            for n in ast.walk(fnode):
                if isinstance(n, ast.Call) and isinstance(n.func, ast.Attribute) and isinstance(n.func.value, ast.Name) and n.func.value.id == cls and (cls, n.func.attr) in self.helpers and not self.helpers[(cls, n.func.attr)].static and n.args and isinstance(n.args[0], ast.Name) and n.args[0].id == "self":
                    n.func.value = ast.copy_location(ast.Name(id="self", ctx=ast.Load()), n.func.value)
                    n.args = n.args[1:]
        fnode.body = self.block(fnode.body)
        return self.changed

    def block(self, stmts):
        out = []
        for s in stmts:
            out.extend(self.stmt(s))
        return out

    def stmt(self, s):
        # nested blocks first
        for f in ("body", "orelse", "finalbody"):
            if hasattr(s, f) and isinstance(getattr(s, f), list) and not isinstance(s, (ast.FunctionDef, ast.AsyncFunctionDef, ast.ClassDef)):
                setattr(s, f, self.block(getattr(s, f)))
        if isinstance(s, ast.Try):
            for h in s.handlers:
                h.body = self.block(h.body)
        if isinstance(s, (ast.FunctionDef, ast.AsyncFunctionDef, ast.ClassDef)):
            return [s]
        pre = []
        # own expressions of the statement
        for field in self.own_fields(s):
            e = getattr(s, field)
            if e is None:
                continue
            e2, hoisted = self.expr(e, s, field)
            setattr(s, field, e2)
            pre.extend(hoisted)
        # statement-position call
        res = self.stmt_position(s)
        if res is not None:
            return pre + res
        return pre + [s]

    def own_fields(self, s):
        if isinstance(s, (ast.Expr, ast.Return, ast.Assign, ast.AugAssign, ast.AnnAssign)):
            return ["value"]
        if isinstance(s, ast.If):
            return ["test"]
        if isinstance(s, ast.While):
            return ["test"]
        if isinstance(s, ast.For):
            return ["iter"]
        if isinstance(s, ast.Raise):
            return ["exc"]
        if isinstance(s, ast.Assert):
            return ["test"]
        return []

    def expr(self, e, s, field):
        """inline single-expression helpers anywhere in e; hoist other helper calls when safe"""
        hoisted = []
        top_call = isinstance(e, ast.Call) and isinstance(s, (ast.Expr, ast.Return, ast.Assign, ast.AnnAssign)) and field == "value"
        if isinstance(s, ast.Expr) and isinstance(e, ast.YieldFrom) and isinstance(e.value, ast.Call):
            return e, hoisted  # handled in stmt_position

        class V(ast.NodeTransformer):
            def __init__(v):
                v.blocked = 0  # inside lambda / comprehension / short-circuit right operand / IfExp arm

            def visit_Lambda(v, n):
                v.blocked += 1
                v.generic_visit(n)
                v.blocked -= 1
                return n

            def _comp(v, n):
                v.blocked += 1
                v.generic_visit(n)
                v.blocked -= 1
                return n

            visit_ListComp = visit_SetComp = visit_DictComp = visit_GeneratorExp = _comp

            def visit_BoolOp(v, n):
                n.values[0] = v.visit(n.values[0])
                v.blocked += 1
                n.values[1:] = [v.visit(x) for x in n.values[1:]]
                v.blocked -= 1
                return n

            def visit_IfExp(v, n):
                n.test = v.visit(n.test)
                v.blocked += 1
                n.body = v.visit(n.body)
                n.orelse = v.visit(n.orelse)
                v.blocked -= 1
                return n

            def visit_Call(v, n):
                v.generic_visit(n)
                h, recv = self.target(n, self.cls)
                if h is None:
                    return n
                if not h.ok:
                    self.left.add(h.qual)
                    return n
                if h.single_expr and not (h.from_branches and n is e and top_call and not h.is_gen):
                    new = self.expr_inline(h, n, recv)
                    if new is not None:
                        self.changed = True
                        self.report.append(("inlined-expr", h.qual))
                        return new
                if n is e and top_call:
                    return n  # statement position: handled by the caller
                if v.blocked or isinstance(s, ast.While) or h.is_gen or not (_returns_at_tail(h.body) or _loop_return_rewrite(copy.deepcopy(h.body), lambda v_, at: [], lambda: []) is not None) or not _hoistable(e, n, self):
                    self.left.add(h.qual)
                    return n
                # hoist: tmp = H(..) before the statement
                _counter[0] += 1
                tmp = f"{h.name.strip('_')}__r{_counter[0]}"
                asg = ast.Assign(targets=[ast.Name(id=tmp, ctx=ast.Store())], value=n, lineno=n.lineno, col_offset=n.col_offset)
                ast.fix_missing_locations(asg)
                res = self.stmt_position(asg)
                if res is None:
                    self.left.add(h.qual)
                    return n
                hoisted.extend(res)
                return ast.copy_location(ast.Name(id=tmp, ctx=ast.Load()), n)

        return V().visit(e), hoisted

    def stmt_position(self, s):
        """inline `H(..)`, `x = H(..)`, `return H(..)`, `yield from H(..)`; None when not applicable"""
        mode = None
        call = None
        if isinstance(s, ast.Expr) and isinstance(s.value, ast.Call):
            mode, call = "expr", s.value
        elif isinstance(s, ast.Expr) and isinstance(s.value, ast.YieldFrom) and isinstance(s.value.value, ast.Call):
            mode, call = "yieldfrom", s.value.value
        elif isinstance(s, ast.Assign) and isinstance(s.value, ast.Call):
            mode, call = "assign", s.value
        elif isinstance(s, ast.AnnAssign) and isinstance(s.value, ast.Call):
            mode, call = "assign", s.value
        elif isinstance(s, ast.Return) and isinstance(s.value, ast.Call):
            mode, call = "return", s.value
        if call is None:
            return None
        # X = list(G(..)) with G a generator helper: X = []; <body of G with `yield e` as `X.append(e)`>
        if mode == "assign" and isinstance(s, ast.Assign) and len(s.targets) == 1 and isinstance(s.targets[0], ast.Name) and isinstance(call.func, ast.Name) and call.func.id == "list" and len(call.args) == 1 and not call.keywords and isinstance(call.args[0], ast.Call):
            inner = call.args[0]
            hg, recv_g = self.target(inner, self.cls)
            tname = s.targets[0].id
            if hg is not None and hg.ok and hg.is_gen and not hg.has_nested and tname not in _names(inner):
                body_nodes = [n for st in hg.body for n in [st] + list(_walk_own_stmt(st))]
                yields = [n for n in body_nodes if isinstance(n, (ast.Yield, ast.YieldFrom))]
                stmt_yields = [n for n in body_nodes if isinstance(n, ast.Expr) and isinstance(n.value, ast.Yield) and n.value.value is not None]
                rets = [n for n in body_nodes if isinstance(n, ast.Return)]
                if yields and len(yields) == len(stmt_yields) and not rets and tname not in local_names(hg.node):
                    inst = self.instantiate(hg, inner, recv_g, s)
                    if inst is not None:
                        prologue, body = inst

                        class Y(ast.NodeTransformer):
                            def visit_Expr(self, n):
                                if isinstance(n.value, ast.Yield):
                                    return ast.copy_location(ast.Expr(value=ast.Call(func=ast.Attribute(value=ast.Name(id=tname, ctx=ast.Load()), attr="append", ctx=ast.Load()), args=[n.value.value], keywords=[])), n)
                                return n

                            def visit_FunctionDef(self, n):
                                return n

                            visit_Lambda = visit_FunctionDef

                        body = [Y().visit(x) for x in body]
                        new = prologue + [ast.Assign(targets=[ast.Name(id=tname, ctx=ast.Store())], value=ast.List(elts=[], ctx=ast.Load()), lineno=s.lineno, col_offset=0)] + body
                        for n in new:
                            ast.fix_missing_locations(ast.copy_location(n, s) if not hasattr(n, "lineno") else n)
                        _stamp(new, s, hg.name)
                        self.caller_names |= _names(ast.Module(body=new, type_ignores=[]))
                        self.changed = True
                        self.report.append(("inlined-generator", hg.qual))
                        return new
        h, recv = self.target(call, self.cls)
        if h is None:
            return None
        if not h.ok or (h.is_gen and mode != "yieldfrom") or (mode == "yieldfrom" and not h.is_gen):
            self.left.add(h.qual)
            return None
        loop_form = False
        if mode in ("expr", "assign", "yieldfrom") and not _returns_at_tail(h.body):
            if mode in ("expr", "assign") and not h.is_gen and _loop_return_rewrite(copy.deepcopy(h.body), lambda v, at: [], lambda: []) is not None:
                loop_form = True
            else:
                self.left.add(h.qual)
                return None
        targets = None
        if mode == "assign":
            targets = s.targets if isinstance(s, ast.Assign) else [s.target]
        inst = self.instantiate(h, call, recv, s, targets)
        if inst is None:
            self.left.add(h.qual)
            return None
        prologue, body = inst
        if mode == "return":
            if _falls_off(body):
                body.append(ast.Return(value=ast.Constant(value=None)))
        elif mode == "assign":
            targets = s.targets if isinstance(s, ast.Assign) else [s.target]

            def make(v, at):
                val = v if v is not None else ast.Constant(value=None)
                return [ast.Assign(targets=copy.deepcopy(targets), value=val, lineno=at.lineno, col_offset=at.col_offset)]

            if loop_form:
                none_assign = lambda: [ast.Assign(targets=copy.deepcopy(targets), value=ast.Constant(value=None), lineno=s.lineno, col_offset=0)]
                body = _loop_return_rewrite(body, make, none_assign)
                fell = False
            else:
                fell = _falls_off(body)
                body = _convert_returns(body, make)
            body = _drop_self_assign(body)
            if fell:
                body.append(ast.Assign(targets=copy.deepcopy(targets), value=ast.Constant(value=None), lineno=s.lineno, col_offset=0))
        else:  # expr / yieldfrom: value discarded

            def make(v, at):
                if v is None or _atomic(v):
                    return []
                return [ast.Expr(value=v, lineno=at.lineno, col_offset=at.col_offset)]

            body = _loop_return_rewrite(body, make, lambda: []) if loop_form else _convert_returns(body, make)
        new = prologue + body
        if not new:
            new = [ast.Pass()]
        for n in new:
            ast.fix_missing_locations(ast.copy_location(n, s) if not hasattr(n, "lineno") else n)
        _stamp(new, s, h.name)
        self.caller_names |= _names(ast.Module(body=new, type_ignores=[]))
        self.changed = True
        self.report.append(("inlined", h.qual))
        return new


def references(trees, name, method=None):
    """count of references to `name` outside call-function position, and calls.  method=True: attribute
    references only (x.name); method=False: plain names only; None: both"""
    calls = other = 0
    for tree in trees:
        callfuncs = {id(n.func) for n in ast.walk(tree) if isinstance(n, ast.Call)}
        for n in ast.walk(tree):
            if isinstance(n, ast.Name) and n.id == name and isinstance(n.ctx, ast.Load) and method is not True:
                if id(n) in callfuncs:
                    calls += 1
                else:
                    other += 1
            elif isinstance(n, ast.Attribute) and n.attr == name and method is not False:
                if id(n) in callfuncs:
                    calls += 1
                else:
                    other += 1
            elif isinstance(n, ast.ClassDef) and method is True:
                # a method named in a class-level statement (a table of methods): a reference by value
                for st in n.body:
                    if not isinstance(st, (ast.FunctionDef, ast.AsyncFunctionDef, ast.ClassDef)):
                        other += sum(1 for x in ast.walk(st) if isinstance(x, ast.Name) and x.id == name and isinstance(x.ctx, ast.Load))
            elif isinstance(n, ast.alias) and n.name == name:
                pass
            elif isinstance(n, ast.Constant) and n.value == name:
                other += 0
    return calls, other


def inline_unknown(trees_by_relpath, unknown, report):
    """inline unknown private helpers in place; returns the set of (rel, qualname) changed"""
    if not unknown:
        return set()
    from .canon import canonicalise

    touched = set()
    from .refnorm import load_inventory

    inv = load_inventory() or {}
    # a function the reference has under the same name in another module was moved (and edited): rules find it by
    # name through the import, it is not a new helper
    ref_names = {q for mod in inv.get("modules", {}).values() for q in mod if "." not in q}
    for _round in range(4):
        helpers = {}
        by_rel = {}
        for rel, tree in trees_by_relpath.items():
            for q, node, cls in functions_of(tree):
                # unknown = not in the reference: a new function is nobody's API yet, whatever its spelling
                if (rel, q) in unknown and not (node.name.startswith("__") and node.name.endswith("__")) and not (cls is None and q in ref_names):
                    h = Helper(rel, q, node, cls)
                    calls, other = references(trees_by_relpath.values(), node.name, method=cls is not None)
                    if other:
                        h.ok = False  # stored or passed as a value somewhere
                    key = node.name if cls is None else (cls, node.name)
                    helpers[key] = h
                    by_rel.setdefault(rel, []).append(h)
        if not helpers:
            break
        inl = Inliner(helpers, report)
        for tree in trees_by_relpath.values():
            for st in ast.walk(tree):
                if isinstance(st, ast.ClassDef):
                    inl.bases[st.name] = [b.id for b in st.bases if isinstance(b, ast.Name)] + [b.value.id for b in st.bases if isinstance(b, ast.Subscript) and isinstance(b.value, ast.Name)]
                    inl.class_methods[st.name] = {x.name for x in st.body if isinstance(x, (ast.FunctionDef, ast.AsyncFunctionDef))}
        progress = False
        for rel, tree in trees_by_relpath.items():
            # module functions are visible in their own module and wherever imported by name; methods in their class
            inl.visible = {h.name for h in by_rel.get(rel, []) if h.cls is None}
            defined_here = {q for q, _, c in functions_of(tree) if c is None}
            for st in ast.walk(tree):
                if isinstance(st, ast.ImportFrom):
                    for al in st.names:
                        if al.asname is None and al.name in helpers and al.name not in defined_here:
                            inl.visible.add(al.name)
            for q, node, cls in functions_of(tree):
                if inl.process_function(node, cls):
                    progress = True
                    touched.add((rel, q))
                    # a helper whose own body was just rewritten is described anew: its summary (body list,
                    # expression form) still points at the statements before the rewrite
                    for h in helpers.values():
                        if h.node is node:
                            was_ok = h.ok
                            h.__init__(h.rel, h.qual, node, h.cls)
                            h.ok = h.ok and was_ok
        # drop helpers without remaining references
        for rel, tree in trees_by_relpath.items():
            def prune(body):
                keep = []
                for st in body:
                    if isinstance(st, (ast.FunctionDef, ast.AsyncFunctionDef)):
                        key = st.name
                        if any(h.node is st for h in helpers.values()):
                            is_m = any(h.node is st and h.cls is not None for h in helpers.values())
                            calls, other = references(trees_by_relpath.values(), st.name, method=is_m)
                            own = sum(1 for n in ast.walk(st) if isinstance(n, ast.Call) and _callee_name(n) == st.name)
                            hq = next((h.qual for h in helpers.values() if h.node is st), None)
                            was_inlined = any(r[0] in ("inlined", "inlined-expr", "inlined-generator") and r[1] == hq for r in report)
                            if calls - own == 0 and other == 0 and was_inlined:
                                # (a helper nobody refers to syntactically may still be reached by name: getattr(self, '..'))
                                report.append(("removed-helper", f"{rel}:{st.name}"))
                                continue
                    elif isinstance(st, ast.ClassDef):
                        st.body = prune(st.body) or [ast.Pass()]
                    keep.append(st)
                return keep

            tree.body = prune(tree.body)
            # imports of removed names
            removed = {r[1].split(":")[1] for r in report if r[0] == "removed-helper"}
            for st in list(ast.walk(tree)):
                if isinstance(st, ast.ImportFrom):
                    st.names = [a for a in st.names if a.name not in removed] or st.names
        if not progress:
            break
    for rel, tree in trees_by_relpath.items():
        if any(r == rel for (r, _) in touched):
            # twice: temporaries of inlined bodies are substituted by the first pass, what that exposes (`not True`,
            # decided tests) is folded by the second
            canonicalise(tree)
            canonicalise(tree)
    return touched


def inline_nested_unknown(trees_by_relpath, report):
    """a nested function (closure) that the reference version of its parent does not have, and that is only ever
    called inside the parent, is inlined at its call sites: a closure reads the parent's variables when it runs,
    which is what the inlined body does"""
    from .refnorm import load_inventory, local_names
    from .canon import canonicalise

    inv = load_inventory()
    if inv is None:
        return set()
    ref = inv["modules"]
    touched = set()
    for rel, tree in trees_by_relpath.items():
        rfns = ref.get(rel, {})
        for q, fnode, cls in functions_of(tree):
            r = rfns.get(q)
            if r is None:
                continue
            ref_locals = set(r["locals"])
            nested = [n for n in _walk_own(fnode) if isinstance(n, (ast.FunctionDef,)) and n.name not in ref_locals]
            for g in nested:
                name = g.name
                callfuncs = {id(n.func) for n in ast.walk(fnode) if isinstance(n, ast.Call)}
                refs = [n for n in ast.walk(fnode) if isinstance(n, ast.Name) and n.id == name]
                if not refs or any(not isinstance(n.ctx, ast.Load) or id(n) not in callfuncs for n in refs):
                    continue
                if any(isinstance(n, ast.Name) and n.id == name for n in ast.walk(g)):
                    continue  # recursive
                if sum(1 for n in _walk_own(fnode) if isinstance(n, ast.FunctionDef) and n.name == name) != 1:
                    continue
                h = Helper(rel, f"{q}.{name}", g, None)
                if not h.ok or h.is_gen or any(isinstance(n, ast.Nonlocal) for n in ast.walk(g)):
                    continue
                inl = Inliner({name: h}, report)
                inl.visible = {name}
                if not inl.process_function(fnode, cls):
                    continue
                if not any(isinstance(n, ast.Name) and n.id == name for n in ast.walk(fnode)):
                    # drop the definition
                    for parent in ast.walk(fnode):
                        for f_ in ("body", "orelse", "finalbody"):
                            lst = getattr(parent, f_, None)
                            if isinstance(lst, list) and any(x is g for x in lst):
                                lst[:] = [x for x in lst if x is not g] or [ast.copy_location(ast.Pass(), g)]
                    report.append(("removed-helper", f"{rel}:{q}.{name}"))
                touched.add(rel)
    for rel in touched:
        canonicalise(trees_by_relpath[rel])
    return touched
