"""Per-path summaries of small functions: reaching definitions with expression propagation.

For every acyclic-bounded CFG path from the entry to a `return` (or `raise`) of a function, the
straight-line assignments to plain locals met on the path are propagated forward into the expressions
that read them (copy / expression propagation along one path: the reaching definition of each read is
unique on a path), and the branch decisions taken are recorded as facts.  The result lets a rule ask
"on the paths where <fact> holds, what is returned, in terms of the parameters?" independently of how the
function spells its temporaries or arranges its branches.  Nothing is executed and no solver is involved:
it is substitution on syntax along enumerated paths; loops are followed at most once (paths through a
loop body are summarised with the loop variable left free) and exception edges are not followed.
"""
import ast
import copy

from .loader import norm
from .canon import negate, ExprCanon


class PathSummary:
    __slots__ = ("kind", "facts", "expr", "node", "calls")

    def __init__(self, kind, facts, expr, node, calls):
        self.kind, self.facts, self.expr, self.node, self.calls = kind, facts, expr, node, calls

    @property
    def text(self):
        return norm(self.expr) if self.expr is not None else ""

    def __repr__(self):
        return f"<{self.kind} {self.text[:80]} if {sorted(self.facts)}>"


class _Sub(ast.NodeTransformer):
    def __init__(self, env):
        self.env = env

    def visit_Name(self, n):
        if isinstance(n.ctx, ast.Load) and self.env.get(n.id) is not None:
            return copy.deepcopy(self.env[n.id])
        return n

    def visit_Lambda(self, n):
        return n

    def _comp(self, n):
        bound = {x.id for g in n.generators for x in ast.walk(g.target) if isinstance(x, ast.Name)}
        inner = _Sub({k: v for k, v in self.env.items() if k not in bound})
        return inner.generic_visit(n)

    visit_ListComp = visit_SetComp = visit_DictComp = visit_GeneratorExp = _comp


def _subst(e, env):
    if e is None:
        return None
    return _Sub(env).visit(copy.deepcopy(e))


class _Fold(ast.NodeTransformer):
    """constant sub-tests produced by propagation: `False is False`, `None is not None`, and/or with a constant"""

    @staticmethod
    def _const(e):
        if isinstance(e, ast.Constant):
            return True, e.value
        if isinstance(e, ast.UnaryOp) and isinstance(e.op, ast.USub) and isinstance(e.operand, ast.Constant) and isinstance(e.operand.value, (int, float)):
            return True, -e.operand.value
        return False, None

    def visit_Compare(self, n):
        self.generic_visit(n)
        ka, a = self._const(n.left)
        kb, b = self._const(n.comparators[0]) if len(n.ops) == 1 else (False, None)
        if ka and kb and isinstance(a, (int, float)) and isinstance(b, (int, float)) and not isinstance(a, bool) and not isinstance(b, bool):
            import operator

            fn = {ast.Eq: operator.eq, ast.NotEq: operator.ne, ast.Lt: operator.lt, ast.LtE: operator.le, ast.Gt: operator.gt, ast.GtE: operator.ge}.get(type(n.ops[0]))
            if fn is not None:
                return ast.copy_location(ast.Constant(value=bool(fn(a, b))), n)
        # the result of arithmetic, a display, a comprehension or an f-string is an object, never None
        if len(n.ops) == 1 and isinstance(n.ops[0], (ast.Is, ast.IsNot)) and isinstance(n.comparators[0], ast.Constant) and n.comparators[0].value is None and isinstance(n.left, (ast.BinOp, ast.List, ast.Tuple, ast.Dict, ast.Set, ast.ListComp, ast.DictComp, ast.SetComp, ast.GeneratorExp, ast.JoinedStr, ast.Lambda)):
            return ast.copy_location(ast.Constant(value=isinstance(n.ops[0], ast.IsNot)), n)
        if len(n.ops) == 1 and isinstance(n.left, ast.Constant) and isinstance(n.comparators[0], ast.Constant):
            a, b, op = n.left.value, n.comparators[0].value, n.ops[0]
            simple = lambda v: v is None or isinstance(v, (bool, int, str))
            if simple(a) and simple(b):
                if isinstance(op, (ast.Is, ast.Eq)):
                    return ast.copy_location(ast.Constant(value=(a is b) if isinstance(op, ast.Is) and (a is None or isinstance(a, bool) or b is None or isinstance(b, bool)) else a == b), n)
                if isinstance(op, (ast.IsNot, ast.NotEq)):
                    return ast.copy_location(ast.Constant(value=not ((a is b) if isinstance(op, ast.IsNot) and (a is None or isinstance(a, bool) or b is None or isinstance(b, bool)) else a == b)), n)
        return n

    def visit_UnaryOp(self, n):
        self.generic_visit(n)
        if isinstance(n.op, ast.Not) and isinstance(n.operand, ast.Constant) and (n.operand.value is None or isinstance(n.operand.value, (bool, int, str))):
            return ast.copy_location(ast.Constant(value=not n.operand.value), n)
        return n

    def visit_BoolOp(self, n):
        self.generic_visit(n)
        unit = isinstance(n.op, ast.And)
        vals = []
        for v in n.values:
            if isinstance(v, ast.Constant) and isinstance(v.value, bool):
                if v.value is unit:
                    continue
                return ast.copy_location(ast.Constant(value=not unit), n)
            vals.append(v)
        if not vals:
            return ast.copy_location(ast.Constant(value=unit), n)
        if len(vals) == 1:
            return vals[0]
        n.values = vals
        return n


def _fact_texts(test, label):
    e = copy.deepcopy(test)
    if label == "false":
        e = ExprCanon().visit(ast.fix_missing_locations(ast.Expression(body=negate(e)))).body
    e = _Fold().visit(e)
    if isinstance(e, ast.Constant) and (e.value is None or isinstance(e.value, (bool, int, str))):
        return [] if e.value else ["<infeasible>"]
    out = []
    todo = [e]
    while todo:
        x = todo.pop()
        if isinstance(x, ast.BoolOp) and isinstance(x.op, ast.And):
            todo.extend(x.values)
        else:
            out.append(norm(x))
    return out


def summaries(cfg, max_paths=400, max_expr=600):
    """[PathSummary] for every return / raise reachable without exception edges"""
    out = []
    goals = [n for n in cfg.nodes if n.kind == "stmt" and isinstance(n.ast, (ast.Return, ast.Raise))]
    # iterative DFS with per-path state
    stack = [(cfg.entry, {}, frozenset(), {cfg.entry.id: 1}, ())]
    count = 0
    while stack and count < max_paths:
        n, env, facts, cnt, calls = stack.pop()
        if n.kind == "stmt" and isinstance(n.ast, ast.Return):
            out.append(PathSummary("return", set(facts), _subst(n.ast.value, env), n.ast, calls))
            count += 1
            continue
        if n.kind == "stmt" and isinstance(n.ast, ast.Raise):
            out.append(PathSummary("raise", set(facts), _subst(n.ast.exc, env), n.ast, calls))
            count += 1
            continue
        if n is cfg.exit:
            out.append(PathSummary("fall", set(facts), None, None, calls))
            count += 1
            continue
        env2 = env
        calls2 = calls
        if n.kind == "stmt" and n.ast is not None:
            s = n.ast
            stmt_calls = tuple(norm(_subst(c, env)) for c in ast.walk(s) if isinstance(c, ast.Call)) if isinstance(s, ast.Expr) else ()
            if stmt_calls:
                calls2 = calls + stmt_calls
            if isinstance(s, (ast.Assign, ast.AnnAssign)) and getattr(s, "value", None) is not None:
                targets = s.targets if isinstance(s, ast.Assign) else [s.target]
                env2 = dict(env)
                val = _subst(s.value, env)
                container = isinstance(s.value, (ast.List, ast.Dict, ast.Set, ast.ListComp, ast.DictComp, ast.SetComp)) or (isinstance(s.value, ast.Subscript) and isinstance(s.value.slice, ast.Slice) and isinstance(s.value.value, (ast.List, ast.ListComp))) or (isinstance(s.value, ast.Call) and isinstance(s.value.func, ast.Name) and s.value.func.id in ("list", "dict", "set", "bytearray", "BytesIO", "StringIO") and not s.value.args)
                for t in targets:
                    if isinstance(t, ast.Name):
                        # a fresh container keeps its name (it is mutated in place later); other values are propagated
                        env2[t.id] = None if container else (val if len(norm(val)) <= max_expr else None)
                    else:
                        for x in ast.walk(t):
                            if isinstance(x, ast.Name) and isinstance(x.ctx, ast.Store):
                                env2[x.id] = None
            elif isinstance(s, (ast.AugAssign, ast.Delete, ast.Import, ast.ImportFrom, ast.With, ast.For)):
                env2 = dict(env)
                for x in ast.walk(s):
                    if isinstance(x, ast.Name) and isinstance(x.ctx, (ast.Store, ast.Del)):
                        env2[x.id] = None
        elif n.kind == "iter":
            env2 = dict(env)
            for x in ast.walk(n.ast.elts[1]):
                if isinstance(x, ast.Name):
                    env2[x.id] = None
        elif n.kind == "handler":
            continue
        for (m, lab) in n.succ:
            if lab == "exc":
                continue
            c = cnt.get(m.id, 0)
            if c >= (2 if m.kind in ("iter", "test") else 1):
                continue
            c2 = dict(cnt)
            c2[m.id] = c + 1
            f2 = facts
            if n.kind == "test" and lab in ("true", "false"):
                labs = {l for (mm, l) in n.succ if mm is m}
                if len(labs) == 1:
                    ft = _fact_texts(_subst(n.ast, env2), lab)
                    if "<infeasible>" in ft:
                        continue
                    f2 = facts | frozenset(ft)
            stack.append((m, env2, f2, c2, calls2))
    return out
