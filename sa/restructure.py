"""Restructurings that regroup values or split a function in two are undone before the rules look at the code.

Three steps, each applied only to classes / functions that the reference inventory does not know (new names are
nobody's API yet) and only when every use of the new name in the package has one of the listed shapes:

  A. record lowering.  A new NamedTuple (class form or `namedtuple(..)`) or field-only dataclass that is never
     subclassed, introspected or assigned to is a tuple with named positions:
         K(e1, .., en)  ->  (e1, .., en)          v.f  ->  v[i]          v._replace(f=x)  ->  (v[0], .., x, ..)
     `v.f` is rewritten when v is known to hold a K (annotated parameter or local, assigned from K(..) or from a
     function annotated `-> K`, or such a call itself) or when no other attribute of that name exists in the package.

  B. tuple-parameter flattening.  A parameter of a new function that is only ever unpacked (`a, b, c = p`) or passed
     on, in the same role, to new functions, and that every call site fills with a tuple display (or with its own
     such parameter), is replaced by its components.

  C. wrapper / worker fusion.  A known function whose whole body is `return G(<its own parameters, each once>)` with
     G new is the worker under another parameter order: calls of G become calls of the known function, whose body
     becomes G's.

Nothing is executed; every step is a syntactic rewriting whose side conditions are checked on the syntax trees of
the whole package.
"""
import ast
import copy
import os
import sys

from .refnorm import functions_of, load_inventory, local_names
from .inline import _strip_doc, _walk_own


# ------------------------------------------------------------------------------------------------ A. records
def _record_classes(trees, inv):
    out = {}
    for rel, tree in trees.items():
        known = set(inv.get("globals", {}).get(rel, ()))
        if rel not in inv.get("globals", {}):
            continue
        for st in tree.body:
            if isinstance(st, ast.ClassDef) and st.name not in known:
                named = any((isinstance(b, ast.Name) and b.id == "NamedTuple") or (isinstance(b, ast.Attribute) and b.attr == "NamedTuple") for b in st.bases)
                data = any((isinstance(d, ast.Name) and d.id == "dataclass") or (isinstance(d, ast.Attribute) and d.attr == "dataclass") or (isinstance(d, ast.Call) and ((isinstance(d.func, ast.Name) and d.func.id == "dataclass") or (isinstance(d.func, ast.Attribute) and d.func.attr == "dataclass"))) for d in st.decorator_list)
                if not (named and len(st.bases) == 1 and not st.decorator_list) and not (data and not st.bases and len(st.decorator_list) == 1):
                    continue
                fields, defaults, ok = [], {}, True
                methods = []
                for x in st.body:
                    if isinstance(x, ast.Expr) and isinstance(x.value, ast.Constant):
                        continue
                    if isinstance(x, ast.Pass):
                        continue
                    if isinstance(x, ast.AnnAssign) and isinstance(x.target, ast.Name):
                        fields.append(x.target.id)
                        if x.value is not None:
                            if not isinstance(x.value, ast.Constant):
                                ok = False
                            defaults[x.target.id] = x.value
                        continue
                    if isinstance(x, ast.FunctionDef) and not x.name.startswith("__") and x.args.args and not x.args.vararg and not x.args.kwarg:
                        kinds = [ast.unparse(d) for d in x.decorator_list]
                        if kinds in ([], ["classmethod"], ["staticmethod"]):
                            methods.append((x, kinds[0] if kinds else "method"))
                            continue
                    ok = False
                if ok and fields:
                    out[st.name] = {"rel": rel, "node": st, "fields": fields, "defaults": defaults, "tuple": named, "methods": methods}
            elif isinstance(st, ast.Assign) and len(st.targets) == 1 and isinstance(st.targets[0], ast.Name) and st.targets[0].id not in known and isinstance(st.value, ast.Call):
                f = st.value.func
                if ((isinstance(f, ast.Name) and f.id == "namedtuple") or (isinstance(f, ast.Attribute) and f.attr == "namedtuple")) and len(st.value.args) == 2 and not st.value.keywords:
                    spec = st.value.args[1]
                    if isinstance(spec, ast.Constant) and isinstance(spec.value, str):
                        fields = spec.value.replace(",", " ").split()
                    elif isinstance(spec, (ast.List, ast.Tuple)) and all(isinstance(e, ast.Constant) and isinstance(e.value, str) for e in spec.elts):
                        fields = [e.value for e in spec.elts]
                    else:
                        continue
                    out[st.targets[0].id] = {"rel": rel, "node": st, "fields": fields, "defaults": {}, "tuple": True}
    return out


def _ann_is(ann, K):
    if ann is None:
        return False
    if isinstance(ann, ast.Name):
        return ann.id == K
    if isinstance(ann, ast.Constant) and isinstance(ann.value, str):
        return ann.value.strip() == K
    if isinstance(ann, ast.Subscript) and isinstance(ann.value, ast.Name) and ann.value.id == "Optional":
        return _ann_is(ann.slice, K)
    return False


def _hoist_record_methods(trees, recs, changed, report, unknown=None):
    """methods of a record class become module-level functions whose first parameter is the record:
    `v.m(a)` -> `K__m(v, a)`, `K.c(a)` (classmethod / staticmethod) -> `K__c(a)` with `cls(..)` -> `K(..)`.
    Only when the method names are unique in the package (no other attribute of that name)."""
    for K, info in list(recs.items()):
        methods = info.get("methods") or []
        if not methods:
            continue
        names = {m.name for m, _ in methods}
        if names & set(info["fields"]):
            del recs[K]
            continue
        clash = False
        for t in trees.values():
            for n in ast.walk(t):
                if isinstance(n, ast.ClassDef) and n.name != K:
                    if any(isinstance(x, (ast.FunctionDef, ast.AsyncFunctionDef)) and x.name in names for x in n.body):
                        clash = True
                if isinstance(n, ast.Attribute) and n.attr in names and isinstance(n.ctx, (ast.Store, ast.Del)):
                    clash = True
        # every use of a method name is a call
        for t in trees.values():
            callf = {id(c.func) for c in ast.walk(t) if isinstance(c, ast.Call)}
            for n in ast.walk(t):
                if isinstance(n, ast.Attribute) and n.attr in names and id(n) not in callf:
                    clash = True
        typed_only = False
        if clash:
            # the method names also exist elsewhere: only calls on receivers that visibly hold a K are rewritten
            # (a local assigned from a construction, an annotated parameter, `self` inside the class); every other
            # `.m(..)` in the package is something else's method -- unless a K could reach it untracked, which the
            # escape check of lower_records rules out afterwards (the record is then not lowered and the class,
            # now without methods, would be wrong): so require that every construction is bound to a plain local
            typed_only = True
            pm_all = {}
            for t in trees.values():
                for n in ast.walk(t):
                    for c in ast.iter_child_nodes(n):
                        pm_all[id(c)] = n
            for t in trees.values():
                for n in ast.walk(t):
                    if isinstance(n, ast.Call) and isinstance(n.func, ast.Name) and n.func.id == K:
                        par = pm_all.get(id(n))
                        if not ((isinstance(par, ast.Assign) and par.value is n and len(par.targets) == 1 and isinstance(par.targets[0], ast.Name)) or (isinstance(par, ast.Attribute) and par.value is n)):
                            typed_only = None
            if typed_only is None:
                del recs[K]
                continue
        tree = trees[info["rel"]]
        cnode = info["node"]
        new_funcs = []
        for m, kind in methods:
            g = copy.deepcopy(m)
            g.decorator_list = []
            g.name = f"{K}__{m.name}"
            first = g.args.args[0].arg
            if kind == "method":
                g.args.args[0].annotation = ast.Name(id=K, ctx=ast.Load())
            else:
                if kind == "classmethod":
                    g.args.args = g.args.args[1:]

                    class C(ast.NodeTransformer):
                        def visit_Name(self, n):
                            return ast.copy_location(ast.Name(id=K, ctx=n.ctx), n) if n.id == first and isinstance(n.ctx, ast.Load) else n

                    g.body = [C().visit(s) for s in g.body]
                rets = [n for n in _walk_own(g) if isinstance(n, ast.Return)]
                if rets and all(isinstance(r.value, ast.Call) and isinstance(r.value.func, ast.Name) and r.value.func.id == K for r in rets):
                    g.returns = ast.Name(id=K, ctx=ast.Load())
            ast.copy_location(g, m)
            ast.fix_missing_locations(g)
            new_funcs.append((g, kind, m.name))
        kinds = {n: k for _, k, n in new_funcs}
        for rel, t in trees.items():
            holders = None
            if typed_only:
                # per function: locals assigned from a construction of K, parameters annotated K
                holders = {}
                for q_, fn_, cls_ in functions_of(t):
                    hs = {a_.arg for a_ in fn_.args.args + fn_.args.kwonlyargs if _ann_is(a_.annotation, K)}
                    for x in ast.walk(fn_):
                        if isinstance(x, ast.Assign) and len(x.targets) == 1 and isinstance(x.targets[0], ast.Name) and isinstance(x.value, ast.Call) and ((isinstance(x.value.func, ast.Name) and x.value.func.id == K) or (isinstance(x.value.func, ast.Attribute) and isinstance(x.value.func.value, ast.Name) and x.value.func.value.id == K)):
                            hs.add(x.targets[0].id)
                    for x in ast.walk(fn_):
                        holders[id(x)] = hs
            for n in ast.walk(t):
                if isinstance(n, ast.Call) and isinstance(n.func, ast.Attribute) and n.func.attr in names:
                    recv = n.func.value
                    mname = n.func.attr
                    if typed_only and not ((isinstance(recv, ast.Name) and recv.id in holders.get(id(n), ())) or (isinstance(recv, ast.Call) and isinstance(recv.func, ast.Name) and recv.func.id == K) or (isinstance(recv, ast.Name) and recv.id == K and kinds[mname] != "method")):
                        continue
                    if kinds[mname] == "method":
                        n.args = [recv] + list(n.args)
                    elif not (isinstance(recv, ast.Name) and recv.id in (K, "cls", "self")):
                        continue
                    n.func = ast.copy_location(ast.Name(id=f"{K}__{mname}", ctx=ast.Load()), n.func)
                    changed.add(rel)
            for st in ast.walk(t):
                if isinstance(st, ast.ImportFrom) and rel != info["rel"] and any(al.name == K for al in st.names):
                    st.names = list(st.names) + [ast.alias(name=g.name, asname=None) for g, _, _ in new_funcs]
        cnode.body = [x for x in cnode.body if not any(x is m for m, _ in methods)] or [ast.Pass()]
        i = next(k for k, x in enumerate(tree.body) if x is cnode)
        tree.body[i + 1:i + 1] = [g for g, _, _ in new_funcs]
        if unknown is not None:
            for g, _, _ in new_funcs:
                unknown.add((info["rel"], g.name))
        ast.fix_missing_locations(tree)
        changed.add(info["rel"])
        report.append(("hoisted-record-methods", f"{info['rel']}:{K}:{sorted(names)}"))


def lower_records(trees, report, unknown=None):
    inv = load_inventory()
    if inv is None:
        return set()
    recs = _record_classes(trees, inv)
    if not recs:
        return set()
    changed = set()
    _hoist_record_methods(trees, recs, changed, report, unknown)
    if not recs:
        return changed
    all_nodes = [(rel, n) for rel, t in trees.items() for n in ast.walk(t)]
    attr_uses = {}
    for rel, n in all_nodes:
        if isinstance(n, ast.Attribute):
            attr_uses.setdefault(n.attr, []).append(n)
    for K, info in list(recs.items()):
        fields = info["fields"]
        # uses of the class name: constructor calls and annotations only
        callfuncs = {id(n.func) for _, n in all_nodes if isinstance(n, ast.Call)}
        anns = set()
        for _, n in all_nodes:
            if isinstance(n, ast.arg) and n.annotation is not None:
                anns |= {id(x) for x in ast.walk(n.annotation)}
            elif isinstance(n, ast.AnnAssign):
                anns |= {id(x) for x in ast.walk(n.annotation)}
            elif isinstance(n, (ast.FunctionDef, ast.AsyncFunctionDef)) and n.returns is not None:
                anns |= {id(x) for x in ast.walk(n.returns)}
        bad = False
        for rel, n in all_nodes:
            if isinstance(n, ast.Name) and n.id == K and n is not (info["node"].targets[0] if isinstance(info["node"], ast.Assign) else None):
                if id(n) in callfuncs or id(n) in anns:
                    continue
                bad = True
            elif isinstance(n, ast.Constant) and n.value == K and id(n) not in anns:
                pass
            elif isinstance(n, ast.alias) and n.name == K:
                pass
        # a dataclass instance is not a tuple: no stores to its fields, no unpacking possible anyway
        if not info["tuple"]:
            for f in fields:
                if any(isinstance(a.ctx, (ast.Store, ast.Del)) for a in attr_uses.get(f, [])):
                    bad = True
        if any(a.attr in ("_asdict", "_fields", "_make", "_field_defaults", "__dict__") and _mentions_record(a, K, recs) for a in sum(attr_uses.values(), [])):
            bad = True
        if bad:
            if os.environ.get("VERIF_DEBUG_RESTRUCTURE"):
                print("record used beyond construction / annotation", K, file=sys.stderr)
            del recs[K]
            continue
    if not recs:
        return set()
    # functions returning a record, by annotation
    returns = {}
    for rel, tree in trees.items():
        for q, fnode, cls in functions_of(tree):
            for K in recs:
                if _ann_is(fnode.returns, K):
                    returns[(fnode.name, cls is not None)] = K
    # ... and by what they return: every `return` is a construction of K
    for rel, tree in trees.items():
        for q, fnode, cls in functions_of(tree):
            rets = [n for n in _walk_own(fnode) if isinstance(n, ast.Return)]
            if rets and (fnode.name, cls is not None) not in returns:
                for K in recs:
                    if all(isinstance(r.value, ast.Call) and isinstance(r.value.func, ast.Name) and r.value.func.id == K for r in rets):
                        returns[(fnode.name, cls is not None)] = K
    # parameters that every call site in the package fills with a K value (two rounds: values passed on)
    param_types = {}  # (function name, is method, parameter name) -> K
    all_funcs = [(rel, q, fnode, cls) for rel, tree in trees.items() for q, fnode, cls in functions_of(tree)]
    by_name = {}
    for rel, q, fnode, cls in all_funcs:
        by_name.setdefault((fnode.name, cls is not None), []).append(fnode)
    # optimistic: a parameter holds a K when every call site passes a K value or another such parameter
    seen_args = {}
    for rel, q, fnode, cls in all_funcs:
        own_params = {a_.arg for a_ in fnode.args.args + fnode.args.kwonlyargs}
        typed_here = {}
        for a_ in fnode.args.args + fnode.args.kwonlyargs:
            for K in recs:
                if _ann_is(a_.annotation, K):
                    typed_here[a_.arg] = K
        stored = {x.id for x in ast.walk(fnode) if isinstance(x, ast.Name) and isinstance(x.ctx, (ast.Store, ast.Del))}
        for _ in range(2):
            for n in ast.walk(fnode):
                if isinstance(n, ast.Assign) and len(n.targets) == 1 and isinstance(n.targets[0], ast.Name):
                    for K in recs:
                        if _is_record_value(n.value, K, {k for k, v in typed_here.items() if v == K}, returns):
                            typed_here[n.targets[0].id] = K
        for c in ast.walk(fnode):
            if not isinstance(c, ast.Call):
                continue
            if isinstance(c.func, ast.Name):
                key = (c.func.id, False)
            elif isinstance(c.func, ast.Attribute) and isinstance(c.func.value, ast.Name) and c.func.value.id in ("self", "cls"):
                key = (c.func.attr, True)
            else:
                continue
            tgt = by_name.get(key)
            if not tgt or len(tgt) != 1:
                continue
            params = [x.arg for x in tgt[0].args.args]
            if key[1]:
                params = params[1:]
            if any(isinstance(x, ast.Starred) for x in c.args) or any(k.arg is None for k in c.keywords):
                for pn in params:
                    seen_args.setdefault(key + (pn,), []).append(("bad", None))
                continue
            for pn, av in list(zip(params, c.args)) + [(k.arg, k.value) for k in c.keywords]:
                kk = None
                for K in recs:
                    if _is_record_value(av, K, {k for k, v in typed_here.items() if v == K}, returns):
                        kk = K
                if kk is not None:
                    seen_args.setdefault(key + (pn,), []).append(("K", kk))
                elif isinstance(av, ast.Name) and av.id in own_params and av.id not in stored:
                    seen_args.setdefault(key + (pn,), []).append(("dep", (fnode.name, cls is not None, av.id)))
                else:
                    seen_args.setdefault(key + (pn,), []).append(("bad", None))
    param_types = {}
    for k, v in seen_args.items():
        ks = {x[1] for x in v if x[0] == "K"}
        if len(ks) == 1 and not any(x[0] == "bad" for x in v):
            param_types[k] = next(iter(ks))
    while True:
        drop = [k for k in param_types if any(x[0] == "dep" and param_types.get(x[1]) != param_types[k] for x in seen_args[k])]
        if not drop:
            break
        for k in drop:
            del param_types[k]
    # all or nothing per record type: K values must only travel where they are tracked (locals, parameters of
    # functions called by name, return values); a K stored in an attribute or container, yielded, or handed to
    # something that is not a by-name call could surface on a receiver this pass does not know to be a K
    typed_by_fn = {}
    for K, info in list(recs.items()):
        escapes = False
        for rel, tree in trees.items():
            pm = {}
            for n in ast.walk(tree):
                for c in ast.iter_child_nodes(n):
                    pm[id(c)] = n
            for q, fnode, cls in functions_of(tree):
                typed = set()
                for a_ in fnode.args.args + fnode.args.kwonlyargs + fnode.args.posonlyargs:
                    if _ann_is(a_.annotation, K) or param_types.get((fnode.name, cls is not None, a_.arg)) == K:
                        typed.add(a_.arg)
                for _ in range(3):
                    for n in ast.walk(fnode):
                        if isinstance(n, ast.AnnAssign) and isinstance(n.target, ast.Name) and _ann_is(n.annotation, K):
                            typed.add(n.target.id)
                        elif isinstance(n, ast.Assign) and len(n.targets) == 1 and isinstance(n.targets[0], ast.Name) and _is_record_value(n.value, K, typed, returns):
                            typed.add(n.targets[0].id)
                        elif isinstance(n, ast.NamedExpr) and isinstance(n.target, ast.Name) and _is_record_value(n.value, K, typed, returns):
                            typed.add(n.target.id)
                typed_by_fn[(K, rel, q)] = typed
                for n in ast.walk(fnode):
                    if not _is_record_value(n, K, typed, returns) or not isinstance(getattr(n, "ctx", ast.Load()), ast.Load):
                        continue
                    par = pm.get(id(n))
                    ok_use = False
                    if isinstance(par, (ast.Assign, ast.AnnAssign)) and getattr(par, "value", None) is n:
                        tg = par.targets if isinstance(par, ast.Assign) else [par.target]
                        ok_use = all(isinstance(t, ast.Name) or (isinstance(t, ast.Tuple) and all(isinstance(e, ast.Name) for e in t.elts)) for t in tg)
                    elif isinstance(par, ast.Return):
                        ok_use = returns.get((fnode.name, cls is not None)) == K
                    elif isinstance(par, (ast.Attribute, ast.Subscript)) and par.value is n:
                        ok_use = True
                    elif isinstance(par, ast.Call) and n in par.args or isinstance(par, ast.keyword):
                        call = par if isinstance(par, ast.Call) else pm.get(id(par))
                        key = None
                        if isinstance(call, ast.Call) and isinstance(call.func, ast.Name):
                            key = (call.func.id, False)
                        elif isinstance(call, ast.Call) and isinstance(call.func, ast.Attribute) and isinstance(call.func.value, ast.Name) and call.func.value.id in ("self", "cls"):
                            key = (call.func.attr, True)
                        if key is not None and key in by_name and len(by_name[key]) == 1:
                            params = [x.arg for x in by_name[key][0].args.args]
                            if key[1]:
                                params = params[1:]
                            pn = par.arg if isinstance(par, ast.keyword) else (params[call.args.index(n)] if call.args.index(n) < len(params) else None)
                            ok_use = pn is not None and param_types.get(key + (pn,)) == K or _ann_is(next((x.annotation for x in by_name[key][0].args.args + by_name[key][0].args.kwonlyargs if x.arg == pn), None), K)
                    elif isinstance(par, ast.Compare) or isinstance(par, (ast.If, ast.While, ast.BoolOp, ast.UnaryOp, ast.IfExp)) or isinstance(par, ast.Expr):
                        ok_use = True
                    elif isinstance(par, ast.Starred) or isinstance(par, ast.comprehension):
                        ok_use = True
                    if not ok_use:
                        if os.environ.get("VERIF_DEBUG_RESTRUCTURE"):
                            print("  record value escapes:", K, rel, q, ast.unparse(par)[:100] if par is not None else "?", file=sys.stderr)
                        escapes = True
        if escapes:
            del recs[K]
    if not recs:
        return set()
    for K, info in recs.items():
        fields = info["fields"]
        unique = {f: False for f in fields}

        def construct(call):
            vals = {}
            if any(isinstance(a, ast.Starred) for a in call.args) or any(k.arg is None for k in call.keywords) or len(call.args) > len(fields):
                return None
            for f, a in zip(fields, call.args):
                vals[f] = a
            for k in call.keywords:
                if k.arg not in fields or k.arg in vals:
                    return None
                vals[k.arg] = k.value
            # evaluation order must stay that of the call: keywords given out of field order with effects
            order = [f for f in fields if f in vals]
            given = list(vals)
            if given != order and any(isinstance(x, (ast.Call, ast.Yield, ast.Await, ast.NamedExpr)) for v in vals.values() for x in ast.walk(v)):
                return None
            elts = []
            for f in fields:
                if f in vals:
                    elts.append(vals[f])
                elif f in info["defaults"]:
                    elts.append(copy.deepcopy(info["defaults"][f]))
                else:
                    return None
            return ast.copy_location(ast.Tuple(elts=elts, ctx=ast.Load()), call)

        for rel, tree in trees.items():
            # module-level names bound once to a construction of K (constants of the record type)
            mod_typed, mod_seq, mod_ok = _module_record_facts(tree, K, trees, rel)
            if not mod_ok:
                mod_typed, mod_seq = set(), set()
            for q, fnode, cls in functions_of(tree):
                locals_stored = {x.id for x in ast.walk(fnode) if isinstance(x, ast.Name) and isinstance(x.ctx, (ast.Store, ast.Del))}
                typed = set(mod_typed) - {a.arg for a in fnode.args.args + fnode.args.kwonlyargs + fnode.args.posonlyargs} - locals_stored
                lt = _loop_typed(fnode, K, typed, mod_seq - locals_stored, returns)
                # a loop variable is typed only if every store to it is such a loop
                for v in lt:
                    stores = [x for x in ast.walk(fnode) if isinstance(x, ast.Name) and x.id == v and isinstance(x.ctx, (ast.Store, ast.Del))]
                    loops_ = [n for n in ast.walk(fnode) if isinstance(n, (ast.For, ast.comprehension)) and isinstance(n.target, ast.Name) and n.target.id == v]
                    if len(stores) == len(loops_) and all((isinstance(n.iter, ast.Name) and n.iter.id in mod_seq) or isinstance(n.iter, (ast.Tuple, ast.List)) for n in loops_):
                        typed.add(v)
                for a in fnode.args.args + fnode.args.kwonlyargs + fnode.args.posonlyargs:
                    if _ann_is(a.annotation, K) or param_types.get((fnode.name, cls is not None, a.arg)) == K:
                        typed.add(a.arg)
                for _ in range(3):
                    for n in ast.walk(fnode):
                        if isinstance(n, ast.AnnAssign) and isinstance(n.target, ast.Name) and _ann_is(n.annotation, K):
                            typed.add(n.target.id)
                        elif isinstance(n, ast.Assign) and len(n.targets) == 1 and isinstance(n.targets[0], ast.Name):
                            if _is_record_value(n.value, K, typed, returns):
                                typed.add(n.targets[0].id)
                        elif isinstance(n, ast.NamedExpr) and isinstance(n.target, ast.Name) and _is_record_value(n.value, K, typed, returns):
                            typed.add(n.target.id)

                class T(ast.NodeTransformer):
                    def visit_Attribute(self, n):
                        is_rec = _is_record_value(n.value, K, typed, returns)
                        self.generic_visit(n)
                        if n.attr in fields and isinstance(n.ctx, ast.Load) and (is_rec or _is_record_value(n.value, K, typed, returns) or unique[n.attr]):
                            changed.add(rel)
                            return ast.copy_location(ast.Subscript(value=n.value, slice=ast.copy_location(ast.Constant(value=fields.index(n.attr)), n), ctx=ast.Load()), n)
                        return n

                    def visit_Call(self, n):
                        self.generic_visit(n)
                        if isinstance(n.func, ast.Name) and n.func.id == K:
                            t = construct(n)
                            if t is not None:
                                changed.add(rel)
                                return t
                        if isinstance(n.func, ast.Attribute) and n.func.attr == "_replace" and not n.args and _is_record_value(n.func.value, K, typed, returns) and isinstance(n.func.value, ast.Name) and all(k.arg in fields for k in n.keywords):
                            kw = {k.arg: k.value for k in n.keywords}
                            elts = [kw[f] if f in kw else ast.Subscript(value=ast.Name(id=n.func.value.id, ctx=ast.Load()), slice=ast.Constant(value=i), ctx=ast.Load()) for i, f in enumerate(fields)]
                            changed.add(rel)
                            return ast.fix_missing_locations(ast.copy_location(ast.Tuple(elts=elts, ctx=ast.Load()), n))
                        return n

                T().visit(fnode)
            # module-level and class-level statements outside functions: constructions, and fields of constructions /
            # of the module-level constants
            typed = set(mod_typed)
            if not mod_ok:
                ast.fix_missing_locations(tree)
                continue

            class TM(ast.NodeTransformer):
                def visit_FunctionDef(self, n):
                    return n

                visit_AsyncFunctionDef = visit_Lambda = visit_FunctionDef

                def visit_Attribute(self, n):
                    is_rec = _is_record_value(n.value, K, typed, returns)
                    self.generic_visit(n)
                    if n.attr in fields and isinstance(n.ctx, ast.Load) and is_rec:
                        changed.add(rel)
                        return ast.copy_location(ast.Subscript(value=n.value, slice=ast.copy_location(ast.Constant(value=fields.index(n.attr)), n), ctx=ast.Load()), n)
                    return n

                def visit_Call(self, n):
                    self.generic_visit(n)
                    if isinstance(n.func, ast.Name) and n.func.id == K:
                        t = construct(n)
                        if t is not None:
                            changed.add(rel)
                            return t
                    return n

            for st in tree.body:
                if st is not info["node"] and not isinstance(st, (ast.FunctionDef, ast.AsyncFunctionDef)):
                    TM().visit(st)
            ast.fix_missing_locations(tree)
        # drop the definition when no constructor call is left
        left = any(isinstance(n, ast.Call) and isinstance(n.func, ast.Name) and n.func.id == K for t in trees.values() for n in ast.walk(t))
        if not left:
            tree = trees[info["rel"]]
            tree.body = [x for x in tree.body if x is not info["node"]]
            changed.add(info["rel"])
            report.append(("lowered-record", f"{info['rel']}:{K}"))
    return changed


def _mentions_record(attr_node, K, recs):
    v = attr_node.value
    return isinstance(v, ast.Name) and v.id == K


def _other_owner(trees, f, K, recs):
    """some other attribute named f exists in the package (an instance attribute, a method, a module attribute)"""
    for tree in trees.values():
        for n in ast.walk(tree):
            if isinstance(n, ast.Attribute) and n.attr == f and isinstance(n.ctx, (ast.Store, ast.Del)):
                return True
            if isinstance(n, ast.ClassDef) and n.name != K:
                for x in n.body:
                    if isinstance(x, (ast.FunctionDef, ast.AsyncFunctionDef)) and x.name == f:
                        return True
                    if isinstance(x, (ast.Assign, ast.AnnAssign)):
                        for t in (x.targets if isinstance(x, ast.Assign) else [x.target]):
                            if isinstance(t, ast.Name) and t.id == f:
                                return True
            if isinstance(n, ast.Attribute) and n.attr == f and isinstance(n.value, ast.Name) and n.value.id in ("self", "cls"):
                return True
    return False


def _module_record_facts(tree, K, trees, rel):
    """(mod_typed, mod_seq, ok): module-level names bound once to a construction of K; module-level names bound once to
    a tuple / list display of such constructions (or of such names); ok = every construction of K outside functions is
    one of these two or the receiver of an attribute, and the sequences are only ever iterated (in this module, not
    imported elsewhere)"""
    binds = {}
    for st in tree.body:
        if isinstance(st, ast.Assign) and len(st.targets) == 1 and isinstance(st.targets[0], ast.Name):
            binds.setdefault(st.targets[0].id, []).append(st)

    def once(nm):
        return len(binds.get(nm, [])) == 1 and sum(1 for n in ast.walk(tree) if isinstance(n, ast.Name) and n.id == nm and isinstance(n.ctx, (ast.Store, ast.Del))) == 1 and not any(isinstance(g_, (ast.Global, ast.Nonlocal)) and nm in g_.names for g_ in ast.walk(tree))

    def isK(e):
        return isinstance(e, ast.Call) and isinstance(e.func, ast.Name) and e.func.id == K

    mod_typed = {nm for nm, sts in binds.items() if once(nm) and isK(sts[0].value)}
    mod_seq = {nm for nm, sts in binds.items() if once(nm) and isinstance(sts[0].value, (ast.Tuple, ast.List)) and sts[0].value.elts and all(isK(e) or (isinstance(e, ast.Name) and e.id in mod_typed) for e in sts[0].value.elts)}
    ok = True
    # constructions outside functions
    pm = {}
    for n in ast.walk(tree):
        for c in ast.iter_child_nodes(n):
            pm[id(c)] = n
    infunc = set()
    for n in ast.walk(tree):
        if isinstance(n, (ast.FunctionDef, ast.AsyncFunctionDef, ast.Lambda)):
            for x in ast.walk(n):
                if x is not n:
                    infunc.add(id(x))
    for n in ast.walk(tree):
        if isK(n) and id(n) not in infunc:
            par = pm.get(id(n))
            if isinstance(par, ast.Assign) and par.value is n and len(par.targets) == 1 and isinstance(par.targets[0], ast.Name) and par.targets[0].id in mod_typed:
                continue
            if isinstance(par, (ast.Tuple, ast.List)) and isinstance(pm.get(id(par)), ast.Assign) and pm[id(par)].value is par and len(pm[id(par)].targets) == 1 and isinstance(pm[id(par)].targets[0], ast.Name) and pm[id(par)].targets[0].id in mod_seq:
                continue
            if isinstance(par, ast.Attribute) and par.value is n:
                continue
            ok = False
    # module-level record constants used as elements of other containers / passed around outside functions
    for n in ast.walk(tree):
        if isinstance(n, ast.Name) and isinstance(n.ctx, ast.Load) and n.id in mod_typed and id(n) not in infunc:
            par = pm.get(id(n))
            if isinstance(par, ast.Attribute) and par.value is n:
                continue
            if isinstance(par, (ast.Tuple, ast.List)) and isinstance(pm.get(id(par)), ast.Assign) and len(pm[id(par)].targets) == 1 and isinstance(pm[id(par)].targets[0], ast.Name) and pm[id(par)].targets[0].id in mod_seq:
                continue
            ok = False
    # the sequences are only iterated
    for n in ast.walk(tree):
        if isinstance(n, ast.Name) and isinstance(n.ctx, ast.Load) and n.id in mod_seq:
            par = pm.get(id(n))
            if isinstance(par, ast.For) and par.iter is n and isinstance(par.target, ast.Name):
                continue
            if isinstance(par, ast.comprehension) and par.iter is n and isinstance(par.target, ast.Name):
                continue
            ok = False
    for r2, t2 in trees.items():
        if r2 == rel:
            continue
        for n in ast.walk(t2):
            if isinstance(n, ast.ImportFrom) and any(a.name in mod_typed | mod_seq for a in n.names):
                ok = False
            if isinstance(n, ast.Attribute) and n.attr in mod_typed | mod_seq:
                ok = False
    return mod_typed, mod_seq, ok


def _loop_typed(fnode_or_tree, K, typed, mod_seq, returns):
    """loop / comprehension variables that range over a sequence of K values"""
    out = set()
    for n in ast.walk(fnode_or_tree):
        if isinstance(n, (ast.For, ast.comprehension)) and isinstance(n.target, ast.Name):
            it = n.iter
            if isinstance(it, ast.Name) and it.id in mod_seq:
                out.add(n.target.id)
            elif isinstance(it, (ast.Tuple, ast.List)) and it.elts and all(_is_record_value(e, K, typed, returns) for e in it.elts):
                out.add(n.target.id)
    return out


def _is_record_value(e, K, typed, returns):
    if isinstance(e, ast.Name):
        return e.id in typed
    if isinstance(e, ast.Call):
        f = e.func
        if isinstance(f, ast.Name):
            return f.id == K or returns.get((f.id, False)) == K
        if isinstance(f, ast.Attribute):
            return returns.get((f.attr, True)) == K
    return False


# ------------------------------------------------------------------------------------------------ B. flattening
def _module_functions(trees):
    out = {}
    for rel, tree in trees.items():
        for st in tree.body:
            if isinstance(st, ast.FunctionDef):
                out.setdefault(st.name, []).append((rel, st))
    return out


def _pos_params(fnode):
    return [a.arg for a in fnode.args.args]


def _calls_of(trees, name):
    return [(rel, n) for rel, t in trees.items() for n in ast.walk(t) if isinstance(n, ast.Call) and isinstance(n.func, ast.Name) and n.func.id == name]


def _arg_at(call, fnode, i):
    """the argument expression that fills positional parameter i (by position or keyword), or None"""
    params = _pos_params(fnode)
    if any(isinstance(a, ast.Starred) for a in call.args) or any(k.arg is None for k in call.keywords):
        return None
    if i < len(call.args):
        return call.args[i]
    for k in call.keywords:
        if k.arg == params[i]:
            return k.value
    return None


def _local_display(owner, name):
    """the tuple display that the local `name` of `owner` holds: assigned exactly once, from a display, not a
    parameter, not captured by a nested function"""
    if owner is None or name in _pos_params(owner) or name in [a.arg for a in owner.args.kwonlyargs]:
        return None
    stores = [n for n in ast.walk(owner) if isinstance(n, ast.Name) and n.id == name and isinstance(n.ctx, (ast.Store, ast.Del))]
    if len(stores) != 1:
        return None
    for n in _walk_own(owner):
        if isinstance(n, ast.Assign) and len(n.targets) == 1 and n.targets[0] is stores[0]:
            if isinstance(n.value, ast.Tuple) and not any(isinstance(e, ast.Starred) for e in n.value.elts):
                for f in ast.walk(owner):
                    if isinstance(f, (ast.FunctionDef, ast.Lambda)) and f is not owner and any(isinstance(x, ast.Name) and x.id == name for x in ast.walk(f)):
                        return None
                return n.value
    return None


def flatten_tuple_params(trees, unknown, report):
    inv = load_inventory()
    funcs = _module_functions(trees)
    cands = {}  # (name, i) -> arity or None
    for name, defs in funcs.items():
        if len(defs) != 1:
            continue
        rel, fnode = defs[0]
        if fnode.args.vararg or fnode.args.kwarg or fnode.args.posonlyargs or fnode.decorator_list:
            continue
        # a function the reference knows takes part only with parameters the reference does not know
        ref_params = None
        if (rel, name) not in unknown:
            r = (inv or {}).get("modules", {}).get(rel, {}).get(name)
            if r is None:
                continue
            ref_params = set(r.get("params", ()))
        # the function is only ever called
        callf = {id(n.func) for t in trees.values() for n in ast.walk(t) if isinstance(n, ast.Call)}
        if any(isinstance(n, ast.Name) and n.id == name and id(n) not in callf and isinstance(n.ctx, ast.Load) for t in trees.values() for n in ast.walk(t)):
            continue
        for i, p in enumerate(_pos_params(fnode)):
            if ref_params is not None and p in ref_params:
                continue
            # no default value for a carrier
            nd = len(fnode.args.defaults)
            if nd and i >= len(fnode.args.args) - nd:
                continue
            cands[(name, i)] = None
    if os.environ.get("VERIF_DEBUG_FLATTEN"):
        print("FLATTEN initial cands", sorted(cands), file=sys.stderr)
    if not cands:
        return set()

    def uses_ok(name, i):
        rel, fnode = funcs[name][0]
        p = _pos_params(fnode)[i]
        arity = None
        min_arity = [0]
        pm = {}
        for n in ast.walk(fnode):
            for c in ast.iter_child_nodes(n):
                pm[id(c)] = n
        for n in ast.walk(fnode):
            if isinstance(n, ast.Name) and n.id == p:
                if not isinstance(n.ctx, ast.Load):
                    return None
                par = pm.get(id(n))
                if isinstance(par, ast.Assign) and par.value is n and len(par.targets) == 1 and isinstance(par.targets[0], ast.Tuple) and all(isinstance(e, ast.Name) for e in par.targets[0].elts):
                    k = len(par.targets[0].elts)
                    if arity not in (None, k):
                        return None
                    arity = k
                    continue
                if isinstance(par, ast.Subscript) and par.value is n and isinstance(par.ctx, ast.Load) and isinstance(par.slice, ast.Constant) and isinstance(par.slice.value, int) and not isinstance(par.slice.value, bool) and par.slice.value >= 0:
                    min_arity[0] = max(min_arity[0], par.slice.value + 1)
                    continue
                if isinstance(par, ast.Call) and isinstance(par.func, ast.Name) and par.func.id in funcs and len(funcs[par.func.id]) == 1:
                    g = funcs[par.func.id][0][1]
                    js = [j for j in range(len(_pos_params(g))) if _arg_at(par, g, j) is n]
                    if len(js) == 1 and (par.func.id, js[0]) in cands:
                        continue
                if isinstance(par, ast.keyword):
                    call = pm.get(id(par))
                    if isinstance(call, ast.Call) and isinstance(call.func, ast.Name) and call.func.id in funcs and len(funcs[call.func.id]) == 1:
                        g = funcs[call.func.id][0][1]
                        js = [j for j in range(len(_pos_params(g))) if _arg_at(call, g, j) is n]
                        if len(js) == 1 and (call.func.id, js[0]) in cands:
                            continue
                return None
            if isinstance(n, (ast.FunctionDef, ast.Lambda)) and n is not fnode and any(isinstance(x, ast.Name) and x.id == p for x in ast.walk(n)):
                return None
        if arity is not None and arity < min_arity[0]:
            return None
        min_needed[(name, i)] = min_arity[0]
        return arity if arity is not None else 0

    min_needed = {}
    # greatest fixpoint over the candidate set
    arities = {}
    while True:
        drop = []
        for (name, i) in list(cands):
            r = uses_ok(name, i)
            if r is None:
                drop.append((name, i))
            else:
                arities[(name, i)] = r
        # call sites: a tuple display or the caller's own carrier parameter
        for (name, i) in list(cands):
            if (name, i) in drop:
                continue
            rel, fnode = funcs[name][0]
            for crel, call in _calls_of(trees, name):
                a = _arg_at(call, fnode, i)
                if a is None:
                    drop.append((name, i))
                    break
                if isinstance(a, ast.Tuple) and not any(isinstance(e, ast.Starred) for e in a.elts):
                    continue
                if isinstance(a, ast.Name):
                    owner = _enclosing_function(trees[crel], call)
                    if owner is not None and owner.name in funcs and funcs[owner.name][0][1] is owner and a.id in _pos_params(owner) and (owner.name, _pos_params(owner).index(a.id)) in cands:
                        continue
                    if _local_display(owner, a.id) is not None:
                        continue
                drop.append((name, i))
                break
        if os.environ.get("VERIF_DEBUG_FLATTEN"):
            print("FLATTEN cands", sorted(cands), "drop", sorted(set(drop)), file=sys.stderr)
        if not drop:
            break
        for k in set(drop):
            cands.pop(k, None)
            arities.pop(k, None)
        if not cands:
            return set()
    # arity: from unpackings and displays, propagated along passes; all must agree
    arity = dict(arities)
    for (name, i) in cands:
        rel, fnode = funcs[name][0]
        for crel, call in _calls_of(trees, name):
            a = _arg_at(call, fnode, i)
            if isinstance(a, ast.Name):
                d = _local_display(_enclosing_function(trees[crel], call), a.id)
                if d is not None:
                    a = d
            if isinstance(a, ast.Tuple):
                if arity.get((name, i)) not in (0, None, len(a.elts)):
                    return set()
                arity[(name, i)] = len(a.elts)
    for _ in range(len(cands) + 1):
        for (name, i) in cands:
            rel, fnode = funcs[name][0]
            for crel, call in _calls_of(trees, name):
                a = _arg_at(call, fnode, i)
                if isinstance(a, ast.Name):
                    owner = _enclosing_function(trees[crel], call)
                    if _local_display(owner, a.id) is not None:
                        continue
                    k2 = (owner.name, _pos_params(owner).index(a.id))
                    x, y = arity.get((name, i), 0), arity.get(k2, 0)
                    if x and y and x != y:
                        return set()
                    arity[(name, i)] = arity[k2] = x or y
    if any(arity.get(k, 0) < min_needed.get(k, 0) for k in cands):
        return set()
    cands = {k: v for k, v in cands.items() if arity.get(k, 0) >= 2}
    if not cands:
        return set()
    # only parameters that are carriers at *every* link stay (a pass to a dropped candidate was checked above)
    names_for = {}
    for (name, i) in cands:
        rel, fnode = funcs[name][0]
        p = _pos_params(fnode)[i]
        n = arity[(name, i)]
        chosen = None
        for st in _strip_doc(fnode.body):
            if isinstance(st, ast.Assign) and isinstance(st.value, ast.Name) and st.value.id == p and isinstance(st.targets[0], ast.Tuple):
                tn = [e.id for e in st.targets[0].elts]
                stores = [x for x in ast.walk(fnode) if isinstance(x, ast.Name) and x.id in tn and isinstance(x.ctx, (ast.Store, ast.Del))]
                if len(stores) == len(tn) and len(set(tn)) == len(tn) and not (set(tn) & set(_pos_params(fnode))):
                    chosen = tn
            break
        if chosen is None:
            chosen = [f"{p}__{k}" for k in range(n)]
            if set(chosen) & local_names(fnode):
                return set()
        names_for[(name, i)] = chosen
    changed = set()
    # rewrite call sites first (they refer to the old parameters of their enclosing function)
    for (name, i) in sorted(cands, key=lambda k: -k[1]):
        rel, fnode = funcs[name][0]
        params = _pos_params(fnode)
        for crel, call in _calls_of(trees, name):
            a = _arg_at(call, fnode, i)
            if isinstance(a, ast.Tuple):
                new = list(a.elts)
            elif isinstance(a, ast.Name) and _local_display(_enclosing_function(trees[crel], call), a.id) is not None:
                # the components of the display the local holds (the local itself is scalarised by the canonical form)
                new = [ast.copy_location(ast.Subscript(value=ast.Name(id=a.id, ctx=ast.Load()), slice=ast.Constant(value=k), ctx=ast.Load()), a) for k in range(arity[(name, i)])]
            else:
                owner = _enclosing_function(trees[crel], call)
                k2 = (owner.name, _pos_params(owner).index(a.id))
                new = [ast.copy_location(ast.Name(id=x, ctx=ast.Load()), a) for x in names_for[k2]]
            # make the call fully positional up to i, then splice
            if i < len(call.args):
                call.args[i:i + 1] = new
            else:
                # given by keyword: positional arguments before it must all be present
                if len(call.args) != i:
                    kws = {k.arg: k.value for k in call.keywords}
                    if not all(pn in kws for pn in params[len(call.args):i]):
                        return changed
                    call.args.extend(kws[pn] for pn in params[len(call.args):i])
                    call.keywords = [k for k in call.keywords if k.arg not in params[:i]]
                call.args.extend(new)
                call.keywords = [k for k in call.keywords if k.arg != params[i]]
            changed.add(crel)
    for (name, i) in sorted(cands, key=lambda k: -k[1]):
        rel, fnode = funcs[name][0]
        p = _pos_params(fnode)[i]
        tn = names_for[(name, i)]
        old = fnode.args.args[i]
        fnode.args.args[i:i + 1] = [ast.copy_location(ast.arg(arg=x, annotation=None), old) for x in tn]
        # defaults: a carrier parameter with a default is not flattened (checked: call sites always give it)
        nd = len(fnode.args.defaults)
        if nd and i >= len(fnode.args.args) - (len(tn) - 1) - nd:
            pass

        def prune(lst):
            keep = []
            for st in lst:
                if isinstance(st, ast.Assign) and isinstance(st.value, ast.Name) and st.value.id == p and isinstance(st.targets[0], ast.Tuple):
                    got = [e.id for e in st.targets[0].elts]
                    if got != tn:
                        for g_, t_ in zip(got, tn):
                            keep.append(ast.copy_location(ast.Assign(targets=[ast.Name(id=g_, ctx=ast.Store())], value=ast.Name(id=t_, ctx=ast.Load())), st))
                    continue
                for f_ in ("body", "orelse", "finalbody"):
                    sub = getattr(st, f_, None)
                    if isinstance(sub, list) and sub and isinstance(sub[0], ast.stmt):
                        setattr(st, f_, prune(sub) or [ast.copy_location(ast.Pass(), st)])
                if isinstance(st, ast.Try):
                    for h in st.handlers:
                        h.body = prune(h.body) or [ast.copy_location(ast.Pass(), h)]
                keep.append(st)
            return keep

        fnode.body = prune(fnode.body) or [ast.copy_location(ast.Pass(), fnode)]

        class Sub(ast.NodeTransformer):
            def visit_Subscript(self, n):
                self.generic_visit(n)
                if isinstance(n.value, ast.Name) and n.value.id == p and isinstance(n.ctx, ast.Load) and isinstance(n.slice, ast.Constant) and isinstance(n.slice.value, int) and 0 <= n.slice.value < len(tn):
                    return ast.copy_location(ast.Name(id=tn[n.slice.value], ctx=ast.Load()), n)
                return n

        Sub().visit(fnode)
        ast.fix_missing_locations(fnode)
        changed.add(rel)
        report.append(("flattened-parameter", f"{rel}:{name}:{p}"))
    return changed


def _enclosing_function(tree, node):
    best = None
    for n in ast.walk(tree):
        if isinstance(n, (ast.FunctionDef, ast.AsyncFunctionDef)) and any(x is node for x in ast.walk(n)):
            if best is None or any(x is n for x in ast.walk(best)):
                best = n
    # the outermost module-level function containing the node
    for st in tree.body:
        if isinstance(st, (ast.FunctionDef, ast.AsyncFunctionDef)) and any(x is node for x in ast.walk(st)):
            return st
    return best


# ------------------------------------------------------------------------------------------------ C. fusion
class _Rename(ast.NodeTransformer):
    def __init__(self, m):
        self.m = m

    def visit_Name(self, n):
        if n.id in self.m:
            n.id = self.m[n.id]
        return n

    def visit_arg(self, n):
        if n.arg in self.m:
            n.arg = self.m[n.arg]
        return n

    def visit_ExceptHandler(self, n):
        if n.name in self.m:
            n.name = self.m[n.name]
        self.generic_visit(n)
        return n


def fuse_wrappers(trees, unknown, report):
    funcs = _module_functions(trees)
    changed = set()
    for name, defs in list(funcs.items()):
        if len(defs) != 1:
            continue
        rel, F = defs[0]
        if (rel, name) in unknown or F.decorator_list or F.args.vararg or F.args.kwarg or F.args.posonlyargs:
            continue
        body = _strip_doc(F.body)
        # an optional prologue that only materialises defaults: `if p is None: p = <expr>` for parameters p
        prologue = []
        while len(body) > 1 and isinstance(body[0], ast.If) and not body[0].orelse and len(body[0].body) == 1 and isinstance(body[0].test, ast.Compare) and len(body[0].test.ops) == 1 and isinstance(body[0].test.ops[0], ast.Is) and isinstance(body[0].test.left, ast.Name) and isinstance(body[0].test.comparators[0], ast.Constant) and body[0].test.comparators[0].value is None and isinstance(body[0].body[0], ast.Assign) and len(body[0].body[0].targets) == 1 and isinstance(body[0].body[0].targets[0], ast.Name) and body[0].body[0].targets[0].id == body[0].test.left.id and body[0].test.left.id in [a.arg for a in F.args.args + F.args.kwonlyargs]:
            prologue.append(body[0])
            body = body[1:]
        if len(body) != 1 or not isinstance(body[0], ast.Return) or not isinstance(body[0].value, ast.Call):
            continue
        call = body[0].value
        if not (isinstance(call.func, ast.Name) and call.func.id in funcs and len(funcs[call.func.id]) == 1):
            continue
        grel, G = funcs[call.func.id][0]
        gname = G.name
        if (grel, gname) not in unknown or grel != rel or G.decorator_list or G.args.vararg or G.args.kwarg or G.args.posonlyargs or G.args.kwonlyargs or G.args.defaults or G is F:
            continue
        fparams = [a.arg for a in F.args.args + F.args.kwonlyargs]
        gparams = _pos_params(G)
        bound = {}
        ok = True
        for j, gp in enumerate(gparams):
            a = _arg_at(call, G, j)
            if not isinstance(a, ast.Name) or a.id not in fparams or a.id in bound.values():
                ok = False
                break
            bound[gp] = a.id
        if not ok or set(bound.values()) != set(fparams) or len(call.args) + len(call.keywords) != len(gparams):
            continue
        # G is only ever called, with all its parameters given
        callf = {id(n.func) for t in trees.values() for n in ast.walk(t) if isinstance(n, ast.Call)}
        if any(isinstance(n, ast.Name) and n.id == gname and isinstance(n.ctx, ast.Load) and id(n) not in callf for t in trees.values() for n in ast.walk(t)):
            continue
        sites = [(r, c) for r, c in _calls_of(trees, gname) if c is not call]
        if any(any(_arg_at(c, G, j) is None for j in range(len(gparams))) for _, c in sites):
            continue
        site_args = {id(c): {gp: _arg_at(c, G, j) for j, gp in enumerate(gparams)} for _, c in sites}
        if prologue:
            # with a prologue F(x) is G(x) only where the prologue changes nothing: the other calls of G must be G's own
            # recursion, passing its (never rebound) parameter on in the position of every materialised parameter
            inv_b = {v: k for k, v in bound.items()}
            mat = [inv_b[p_.test.left.id] for p_ in prologue]
            g_nodes = {id(x) for x in ast.walk(G)}
            g_stores = {x.id for x in ast.walk(G) if isinstance(x, ast.Name) and isinstance(x.ctx, (ast.Store, ast.Del))}
            if any(id(c) not in g_nodes for _, c in sites) or any(gp in g_stores for gp in mat) or any(not (isinstance(site_args[id(c)][gp], ast.Name) and site_args[id(c)][gp].id == gp) for _, c in sites for gp in mat):
                continue
        if any(isinstance(n, (ast.Global, ast.Nonlocal)) for n in ast.walk(G)) or any(isinstance(n, (ast.Yield, ast.YieldFrom)) for n in _walk_own(G)) != any(isinstance(n, (ast.Yield, ast.YieldFrom)) for n in _walk_own(F)):
            continue
        # locals of G that clash with names of F's parameters are renamed first
        glocals = local_names(G) - set(gparams)
        ren = {}
        for l in glocals:
            if l in fparams and l not in bound.values():
                ren[l] = l + "__w"
        for l in glocals & set(bound.values()):
            ren[l] = l + "__w"
        ren2 = dict(ren)
        # parameters: G's names become F's; done through temporaries to survive permutations of the same names
        tmp = {gp: f"__fuse_{k}__" for k, gp in enumerate(gparams)}
        _Rename({**ren2, **tmp}).visit(G)
        _Rename({tmp[gp]: bound[gp] for gp in gparams}).visit(G)
        # every call of G becomes a call of F with the arguments in F's order
        order = [a.arg for a in F.args.args]
        kwonly = [a.arg for a in F.args.kwonlyargs]
        inv_bound = {v: k for k, v in bound.items()}
        for r, c in sites:
            args_by_g = site_args[id(c)]
            # evaluation order of the arguments must stay the same unless they are free of effects
            new_order = [inv_bound[fp] for fp in order]
            if new_order != gparams[: len(new_order)] and any(isinstance(x, (ast.Call, ast.Yield, ast.Await, ast.NamedExpr)) for v in args_by_g.values() for x in ast.walk(v)):
                # keyword arguments keep the original order of evaluation
                c.args = []
                c.keywords = [ast.keyword(arg=bound[gp], value=args_by_g[gp]) for gp in gparams]
            else:
                c.args = [args_by_g[inv_bound[fp]] for fp in order]
                c.keywords = [ast.keyword(arg=fp, value=args_by_g[inv_bound[fp]]) for fp in kwonly]
            c.func = ast.copy_location(ast.Name(id=name, ctx=ast.Load()), c.func)
            ast.fix_missing_locations(c)
            changed.add(r)
        doc = F.body[:1] if F.body and isinstance(F.body[0], ast.Expr) and isinstance(F.body[0].value, ast.Constant) and isinstance(F.body[0].value.value, str) else []
        F.body = doc + prologue + _strip_doc(G.body)
        trees[rel].body = [x for x in trees[rel].body if x is not G]
        ast.fix_missing_locations(F)
        changed.add(rel)
        report.append(("fused-wrapper", f"{rel}:{name}<-{gname}"))
    return changed


# ------------------------------------------------------------------------------------------------ E. objects
def eliminate_config_objects(trees, report, unknown=None):
    """A new class whose instances only carry values fixed at construction (fields assigned in `__init__` and
    never rebound) and are only ever created to have methods called on them is a group of functions that take the
    fields as leading parameters:
        class K: def __init__(self, a, b): self.a = a; self.t = {}            def K__m(a, t, x): .. a .. K__n(a, t, y)
                 def m(self, x): .. self.a .. self.n(y)                 ==>
        K(e1, e2).m(z)                                                        K__m(e1, {}, z)
        v = K(e1, e2); .. v.m(z) ..                                           v__a = e1; v__t = {}; .. K__m(v__a, v__t, z) ..
    Mutable fields keep their identity (the same container object is passed on), which is all a method can observe
    of an object whose fields are never rebound."""
    inv = load_inventory()
    if inv is None:
        return set()
    changed = set()
    for rel, tree in list(trees.items()):
        known = set(inv.get("globals", {}).get(rel, ()))
        if rel not in inv.get("globals", {}):
            continue
        for K in [s for s in tree.body if isinstance(s, ast.ClassDef) and s.name not in known]:
            if K.bases or K.decorator_list or K.keywords:
                continue
            methods = {}
            ok = True
            for st in K.body:
                if isinstance(st, ast.FunctionDef):
                    if st.decorator_list or st.args.vararg or st.args.kwarg or st.args.posonlyargs or not st.args.args:
                        ok = False
                    methods[st.name] = st
                elif isinstance(st, ast.Expr) and isinstance(st.value, ast.Constant):
                    continue
                elif isinstance(st, ast.Pass) or (isinstance(st, ast.AnnAssign) and st.value is None):
                    continue
                elif isinstance(st, ast.Assign) and all(isinstance(t, ast.Name) and t.id == "__slots__" for t in st.targets):
                    continue
                else:
                    ok = False
            if not ok or not methods or any(n.startswith("__") and n != "__init__" for n in methods):
                continue
            init = methods.get("__init__")
            fields, inits, iparams = [], {}, []
            if init is not None:
                sname = init.args.args[0].arg
                iparams = [a.arg for a in init.args.args[1:] + init.args.kwonlyargs]
                for st in _strip_doc(init.body):
                    if isinstance(st, ast.Pass):
                        continue
                    if isinstance(st, ast.AnnAssign) and st.value is not None:
                        tgt, val = st.target, st.value
                    elif isinstance(st, ast.Assign) and len(st.targets) == 1:
                        tgt, val = st.targets[0], st.value
                    else:
                        ok = False
                        break
                    if not (isinstance(tgt, ast.Attribute) and isinstance(tgt.value, ast.Name) and tgt.value.id == sname) or tgt.attr in inits:
                        ok = False
                        break
                    if any(isinstance(x, ast.Name) and x.id == sname for x in ast.walk(val)):
                        ok = False
                        break
                    fields.append(tgt.attr)
                    inits[tgt.attr] = val
            if not ok:
                continue
            other = {n: m for n, m in methods.items() if n != "__init__"}
            if not other or set(fields) & set(other):
                continue
            # methods: self only as self.<field> (load) or self.<method>(..)
            for mname, m in other.items():
                sname = m.args.args[0].arg
                pm = {}
                for n in ast.walk(m):
                    for c in ast.iter_child_nodes(n):
                        pm[id(c)] = n
                for n in ast.walk(m):
                    if isinstance(n, ast.Name) and n.id == sname:
                        par = pm.get(id(n))
                        if not (isinstance(par, ast.Attribute) and par.value is n):
                            ok = False
                        elif par.attr in fields:
                            if not isinstance(par.ctx, ast.Load):
                                ok = False
                        elif par.attr in other:
                            gp = pm.get(id(par))
                            if not (isinstance(gp, ast.Call) and gp.func is par):
                                ok = False
                        else:
                            ok = False
                    if isinstance(n, (ast.FunctionDef, ast.Lambda)) and n is not m and any(isinstance(x, ast.Name) and x.id == sname for x in ast.walk(n)):
                        ok = False
            if not ok:
                continue
            # uses of the class name: K(..).m(..)  or  v = K(..) with v only as receiver of method calls
            uses = []
            for r2, t2 in trees.items():
                pm2 = {}
                for n in ast.walk(t2):
                    for c in ast.iter_child_nodes(n):
                        pm2[id(c)] = n
                for n in ast.walk(t2):
                    if isinstance(n, ast.Name) and n.id == K.name:
                        uses.append((r2, t2, n, pm2))
                    elif isinstance(n, ast.alias) and n.name == K.name:
                        ok = False
            plans = []
            for r2, t2, n, pm2 in uses:
                call = pm2.get(id(n))
                if not (isinstance(call, ast.Call) and call.func is n):
                    # annotations are fine
                    q = call
                    annotated = False
                    while q is not None:
                        if isinstance(q, ast.arg) or isinstance(q, ast.AnnAssign):
                            annotated = True
                        q = pm2.get(id(q))
                    if annotated or isinstance(call, (ast.arg,)):
                        continue
                    ok = False
                    break
                if init is None:
                    if call.args or call.keywords:
                        ok = False
                        break
                    bind = {}
                else:
                    bind = _bind_simple(ast.FunctionDef(name="i", args=ast.arguments(posonlyargs=[], args=init.args.args[1:], vararg=None, kwonlyargs=init.args.kwonlyargs, kw_defaults=init.args.kw_defaults, kwarg=None, defaults=init.args.defaults), body=[], decorator_list=[]), call)
                    if bind is None:
                        ok = False
                        break
                par = pm2.get(id(call))
                if isinstance(par, ast.Attribute) and par.value is call and par.attr in other and isinstance(pm2.get(id(par)), ast.Call) and pm2[id(par)].func is par:
                    plans.append(("direct", r2, t2, call, pm2[id(par)], par.attr, bind, pm2))
                elif isinstance(par, ast.Assign) and par.value is call and len(par.targets) == 1 and isinstance(par.targets[0], ast.Name):
                    plans.append(("local", r2, t2, call, par, par.targets[0].id, bind, pm2))
                else:
                    ok = False
                    break
            if not ok or not plans:
                continue
            # parameters used more than once in the field initialisers must be given as simple expressions
            def field_values(bind):
                vals = {}
                for f in fields:
                    e = copy.deepcopy(inits[f])
                    e = _SubstLoads(bind).visit(e)
                    vals[f] = e
                return vals

            counts = {}
            for f in fields:
                for x in ast.walk(inits[f]):
                    if isinstance(x, ast.Name) and x.id in iparams:
                        counts[x.id] = counts.get(x.id, 0) + 1
            for kind, r2, t2, call, site, name, bind, pm2 in plans:
                for pn, e in bind.items():
                    if counts.get(pn, 0) != 1 and not _simple_arg(e):
                        ok = False
                # evaluation order: fields are computed in __init__ order = parameter order for plain copies
                order_plain = [inits[f].id for f in fields if isinstance(inits[f], ast.Name) and inits[f].id in iparams]
                if order_plain != [p_ for p_ in iparams if p_ in order_plain] and any(not _simple_arg(e) for e in bind.values()):
                    ok = False
            if not ok:
                continue
            # local plans: v is assigned once and used only as v.m(..)
            for kind, r2, t2, call, site, name, bind, pm2 in plans:
                if kind != "local":
                    continue
                fn = _enclosing_function(t2, site)
                if fn is None:
                    ok = False
                    break
                occ = [x for x in ast.walk(fn) if isinstance(x, ast.Name) and x.id == name]
                if sum(1 for x in occ if isinstance(x.ctx, (ast.Store, ast.Del))) != 1:
                    ok = False
                    break
                for x in occ:
                    if isinstance(x.ctx, ast.Load):
                        a_ = pm2.get(id(x))
                        c_ = pm2.get(id(a_)) if a_ is not None else None
                        is_call = isinstance(a_, ast.Attribute) and a_.value is x and a_.attr in other and isinstance(c_, ast.Call) and c_.func is a_
                        # ... or to read one of its fields (never rebound after construction: the local that holds it is the field)
                        is_field = isinstance(a_, ast.Attribute) and a_.value is x and a_.attr in fields and isinstance(a_.ctx, ast.Load)
                        if not (is_call or is_field):
                            ok = False
                if any(f"{name}__{f}" in {y.id for y in ast.walk(fn) if isinstance(y, ast.Name)} for f in fields):
                    ok = False
            if not ok:
                continue
            # ---- rewrite
            fname = lambda m_: f"{K.name}__{m_}"
            new_funcs = []
            for mname, m in other.items():
                sname = m.args.args[0].arg
                taken = {x.id for x in ast.walk(m) if isinstance(x, ast.Name)} | {a.arg for a in ast.walk(m.args) if isinstance(a, ast.arg)}
                fmap = {f: (f if f not in taken else f"{f}__f") for f in fields}

                class M(ast.NodeTransformer):
                    def visit_Attribute(self, n):
                        self.generic_visit(n)
                        if isinstance(n.value, ast.Name) and n.value.id == sname and n.attr in fmap:
                            return ast.copy_location(ast.Name(id=fmap[n.attr], ctx=ast.Load()), n)
                        return n

                    def visit_Call(self, n):
                        if isinstance(n.func, ast.Attribute) and isinstance(n.func.value, ast.Name) and n.func.value.id == sname and n.func.attr in other:
                            n.args = [ast.Name(id=fmap[f], ctx=ast.Load()) for f in fields] + [self.visit(a) for a in n.args]
                            n.keywords = [ast.keyword(arg=k.arg, value=self.visit(k.value)) for k in n.keywords]
                            n.func = ast.copy_location(ast.Name(id=fname(n.func.attr), ctx=ast.Load()), n.func)
                            return n
                        self.generic_visit(n)
                        return n

                g = copy.deepcopy(m)
                g.name = fname(mname)
                g.args.args = [ast.arg(arg=fmap[f], annotation=None) for f in fields] + g.args.args[1:]
                g.body = [M().visit(s) for s in g.body]
                ast.copy_location(g, m)
                ast.fix_missing_locations(g)
                new_funcs.append(g)
            for kind, r2, t2, call, site, name, bind, pm2 in plans:
                vals = field_values(bind)
                if kind == "direct":
                    site.args = [vals[f] for f in fields] + list(site.args)
                    site.func = ast.copy_location(ast.Name(id=fname(name), ctx=ast.Load()), site.func)
                    ast.fix_missing_locations(site)
                else:
                    fn = _enclosing_function(t2, site)
                    seq = [ast.copy_location(ast.Assign(targets=[ast.Name(id=f"{name}__{f}", ctx=ast.Store())], value=vals[f]), site) for f in fields]
                    for parent in ast.walk(fn):
                        for f_ in ("body", "orelse", "finalbody"):
                            lst = getattr(parent, f_, None)
                            if isinstance(lst, list) and any(x is site for x in lst):
                                i = next(k for k, x in enumerate(lst) if x is site)
                                lst[i:i + 1] = seq or [ast.copy_location(ast.Pass(), site)]
                    for x in list(ast.walk(fn)):
                        if isinstance(x, ast.Call) and isinstance(x.func, ast.Attribute) and isinstance(x.func.value, ast.Name) and x.func.value.id == name and x.func.attr in other:
                            x.args = [ast.Name(id=f"{name}__{f}", ctx=ast.Load()) for f in fields] + list(x.args)
                            x.func = ast.copy_location(ast.Name(id=fname(x.func.attr), ctx=ast.Load()), x.func)

                    class _FieldReads(ast.NodeTransformer):
                        def visit_Attribute(self, n_):
                            self.generic_visit(n_)
                            if isinstance(n_.value, ast.Name) and n_.value.id == name and n_.attr in fields and isinstance(n_.ctx, ast.Load):
                                return ast.copy_location(ast.Name(id=f"{name}__{n_.attr}", ctx=ast.Load()), n_)
                            return n_

                    fn.body = [_FieldReads().visit(st_) for st_ in fn.body]
                    ast.fix_missing_locations(fn)
                changed.add(r2)
            i = next(k for k, x in enumerate(tree.body) if x is K)
            tree.body[i:i + 1] = new_funcs
            if unknown is not None:
                for g in new_funcs:
                    unknown.add((rel, g.name))
            # other modules that construct K need the new names: analysis resolves names by import table, so add them
            for r2, t2 in trees.items():
                if r2 != rel and r2 in changed:
                    for st in ast.walk(t2):
                        if isinstance(st, ast.ImportFrom) and any(al.name == K.name for al in st.names):
                            st.names = [al for al in st.names if al.name != K.name] + [ast.alias(name=g.name, asname=None) for g in new_funcs]
            changed.add(rel)
            report.append(("eliminated-object", f"{rel}:{K.name} -> {[g.name for g in new_funcs]}"))
    return changed


# ------------------------------------------------------------------------------------------------ D. import time
def _bind_simple(fnode, call):
    """{param: argument expression} for a call that gives every parameter (defaults used), or None"""
    a = fnode.args
    if a.kwarg or a.posonlyargs or any(isinstance(x, ast.Starred) for x in call.args) or any(k.arg is None for k in call.keywords):
        return None
    params = [x.arg for x in a.args]
    if len(call.args) > len(params) and not a.vararg:
        return None
    out = dict(zip(params, call.args))
    if a.vararg:
        out[a.vararg.arg] = ast.Tuple(elts=list(call.args[len(params):]), ctx=ast.Load())
    kwonly = [x.arg for x in a.kwonlyargs]
    for k in call.keywords:
        if k.arg in out or k.arg not in params + kwonly:
            return None
        out[k.arg] = k.value
    for pn, d in zip(params[len(params) - len(a.defaults):], a.defaults):
        out.setdefault(pn, d)
    for pn, d in zip(kwonly, a.kw_defaults):
        if d is not None:
            out.setdefault(pn, d)
    if set(out) != set(params + kwonly + ([a.vararg.arg] if a.vararg else [])):
        return None
    return out


class _SubstLoads(ast.NodeTransformer):
    def __init__(self, m):
        self.m = m

    def visit_Name(self, n):
        if n.id in self.m and isinstance(n.ctx, ast.Load):
            return copy.deepcopy(self.m[n.id])
        return n


def _simple_arg(e):
    if isinstance(e, (ast.Constant, ast.Name)):
        return True
    if isinstance(e, ast.Attribute):
        return _simple_arg(e.value)
    if isinstance(e, (ast.Tuple, ast.List)):
        return all(_simple_arg(x) for x in e.elts)
    if isinstance(e, ast.IfExp):
        return _simple_arg(e.test) and _simple_arg(e.body) and _simple_arg(e.orelse)
    return False


def _parents_map(tree):
    pm = {}
    for n in ast.walk(tree):
        for c in ast.iter_child_nodes(n):
            pm[id(c)] = n
    return pm


def inline_import_time_helpers(trees, unknown, report):
    """new private functions that only module-level code uses, in two shapes:
      * a registering decorator (factory) `def D(k): def register(fn): TABLE[k] = fn; return fn; return register`
        applied as `@D('x')` to module-level functions:  the definition followed by `TABLE['x'] = <function>`;
      * a helper called in statement position at module level with simple arguments: its body, parameters replaced
        (straight-line / if-else bodies without return values)."""
    changed = set()
    for rel, tree in trees.items():
        inside = set()
        for n in ast.walk(tree):
            if isinstance(n, (ast.FunctionDef, ast.AsyncFunctionDef, ast.Lambda)):
                for st in (n.body if isinstance(n.body, list) else [n.body]):
                    inside |= {id(x) for x in ast.walk(st)}
        for D in [s for s in tree.body if isinstance(s, ast.FunctionDef)]:
            if (rel, D.name) not in unknown or D.decorator_list:
                continue
            refs = [x for x in ast.walk(tree) if isinstance(x, ast.Name) and x.id == D.name and isinstance(x.ctx, ast.Load)]
            if not refs or any(id(x) in inside for x in refs):
                continue
            if any(isinstance(x, ast.ImportFrom) and any(al.name == D.name for al in x.names) for r2, t2 in trees.items() if r2 != rel for x in ast.walk(t2)):
                continue
            body = _strip_doc(D.body)
            # ---- a helper whose whole body is `return <expr>`, called at module level with simple arguments in the value
            # position of an assignment (`TABLE = build_table()`): the expression, parameters replaced
            if len(body) == 1 and isinstance(body[0], ast.Return) and body[0].value is not None and not D.args.vararg and not D.args.kwarg and not any(isinstance(x, (ast.Yield, ast.YieldFrom, ast.Lambda, ast.NamedExpr)) for x in ast.walk(body[0].value)):
                pm_ = _parents_map(tree)
                calls = [pm_.get(id(x)) for x in refs]
                if all(isinstance(c, ast.Call) and c.func is x and isinstance(pm_.get(id(c)), ast.Assign) and pm_[id(c)].value is c and pm_[id(c)] in tree.body and all(_simple_arg(a_) for a_ in c.args) and all(k.arg and _simple_arg(k.value) for k in c.keywords) for c, x in zip(calls, refs)):
                    done_all = True
                    for c in calls:
                        b = _bind_simple(D, c)
                        if b is None:
                            done_all = False
                            break
                        new = _SubstLoads(b).visit(copy.deepcopy(body[0].value))
                        ast.copy_location(new, c)
                        pm_[id(c)].value = new
                        ast.fix_missing_locations(pm_[id(c)])
                    if done_all:
                        tree.body = [x for x in tree.body if x is not D]
                        report.append(("import-time-expression", f"{rel}:{D.name}"))
                        changed.add(rel)
                        continue
            # ---- registering decorator factory / plain registering decorator
            inner = None
            factory = False
            if len(body) == 2 and isinstance(body[0], ast.FunctionDef) and isinstance(body[1], ast.Return) and isinstance(body[1].value, ast.Name) and body[1].value.id == body[0].name and len(body[0].args.args) == 1 and not body[0].decorator_list:
                inner, factory = body[0], True
            elif len(D.args.args) == 1 and body and isinstance(body[-1], ast.Return) and isinstance(body[-1].value, ast.Name) and body[-1].value.id == D.args.args[0].arg:
                inner = D
            if inner is not None:
                ib = _strip_doc(inner.body)
                fn_param = inner.args.args[0].arg
                if not (ib and isinstance(ib[-1], ast.Return) and isinstance(ib[-1].value, ast.Name) and ib[-1].value.id == fn_param):
                    inner = None
                else:
                    stmts = ib[:-1]
                    loop_targets = {id(x) for s in stmts for l in ast.walk(s) if isinstance(l, ast.For) for x in ast.walk(l.target)}
                    if any(isinstance(x, (ast.Return, ast.Yield, ast.YieldFrom, ast.FunctionDef, ast.Lambda)) for s in stmts for x in ast.walk(s)) or any(isinstance(x, ast.Name) and isinstance(x.ctx, (ast.Store, ast.Del)) and id(x) not in loop_targets for s in stmts for x in ast.walk(s)):
                        inner = None
            if inner is not None:
                # every reference is a decorator of a module-level function
                sites = []
                ok = True
                decos = {}
                for st in tree.body:
                    if isinstance(st, ast.FunctionDef):
                        for d in st.decorator_list:
                            for x in ast.walk(d):
                                decos[id(x)] = (st, d)
                for x in refs:
                    if id(x) not in decos:
                        ok = False
                        break
                    st, d = decos[id(x)]
                    if factory:
                        if not (isinstance(d, ast.Call) and d.func is x and all(_simple_arg(a_) for a_ in d.args) and all(_simple_arg(k.value) for k in d.keywords)):
                            ok = False
                            break
                        b = _bind_simple(D, d)
                        if b is None:
                            ok = False
                            break
                    else:
                        if d is not x:
                            ok = False
                            break
                        b = {}
                    if st.decorator_list[-1] is not d and any(True for _ in st.decorator_list[st.decorator_list.index(d) + 1:]):
                        # decorators below it would see the undecorated function either way; those above see the
                        # same object (the decorator returns its argument): order does not matter
                        pass
                    sites.append((st, d, b))
                if ok and sites:
                    new_body = []
                    for st in tree.body:
                        new_body.append(st)
                        for (fst, d, b) in sites:
                            if fst is st:
                                m = dict(b)
                                m[fn_param] = ast.Name(id=st.name, ctx=ast.Load())
                                for s_ in stmts:
                                    ns = _SubstLoads(m).visit(copy.deepcopy(s_))
                                    ast.copy_location(ns, st)
                                    ast.fix_missing_locations(ns)
                                    new_body.append(ns)
                                st.decorator_list = [x for x in st.decorator_list if x is not d]
                    tree.body = [x for x in new_body if x is not D]
                    changed.add(rel)
                    report.append(("inlined-registration-decorator", f"{rel}:{D.name}"))
                    continue
            # ---- statement-position helper (at module level, possibly inside try / if blocks of the module body)
            def module_stmts(stmts):
                for st_ in stmts:
                    if isinstance(st_, (ast.FunctionDef, ast.AsyncFunctionDef, ast.ClassDef)):
                        continue
                    yield st_
                    for f_ in ("body", "orelse", "finalbody"):
                        sub = getattr(st_, f_, None)
                        if isinstance(sub, list) and sub and isinstance(sub[0], ast.stmt):
                            yield from module_stmts(sub)
                    if isinstance(st_, ast.Try):
                        for h in st_.handlers:
                            yield from module_stmts(h.body)

            stmt_calls = [s_ for s_ in module_stmts(tree.body) if isinstance(s_, ast.Expr) and isinstance(s_.value, ast.Call) and isinstance(s_.value.func, ast.Name) and s_.value.func.id == D.name]
            if len(stmt_calls) != len(refs):
                continue
            if any(isinstance(x, (ast.Return, ast.Yield, ast.YieldFrom, ast.FunctionDef, ast.Lambda, ast.Global, ast.Nonlocal)) for s_ in body for x in ast.walk(s_)):
                continue
            locals_ = {x.id for s_ in body for x in ast.walk(s_) if isinstance(x, ast.Name) and isinstance(x.ctx, (ast.Store, ast.Del))}
            if locals_:
                continue
            uses = {}
            for s_ in body:
                for x in ast.walk(s_):
                    if isinstance(x, ast.Name) and isinstance(x.ctx, ast.Load):
                        uses[x.id] = uses.get(x.id, 0) + 1
            binds = {}
            for s_ in stmt_calls:
                b = _bind_simple(D, s_.value)
                # an argument that is itself a call is evaluated once where the parameter is read once
                if b is None or not all(_simple_arg(v) or (isinstance(v, ast.Call) and uses.get(k, 0) == 1 and isinstance(v.func, (ast.Name, ast.Attribute)) and all(_simple_arg(a_) for a_ in v.args) and all(kw.arg and _simple_arg(kw.value) for kw in v.keywords)) for k, v in b.items()):
                    binds = None
                    break
                binds[id(s_)] = b
            if not binds:
                continue

            def rewrite(stmts):
                out = []
                for st_ in stmts:
                    if id(st_) in binds:
                        for s2 in body:
                            ns = _SubstLoads(binds[id(st_)]).visit(copy.deepcopy(s2))
                            ast.copy_location(ns, st_)
                            ast.fix_missing_locations(ns)
                            out.append(ns)
                        continue
                    if st_ is D:
                        continue
                    if not isinstance(st_, (ast.FunctionDef, ast.AsyncFunctionDef, ast.ClassDef)):
                        for f_ in ("body", "orelse", "finalbody"):
                            sub = getattr(st_, f_, None)
                            if isinstance(sub, list) and sub and isinstance(sub[0], ast.stmt):
                                setattr(st_, f_, rewrite(sub) or [ast.copy_location(ast.Pass(), st_)])
                        if isinstance(st_, ast.Try):
                            for h in st_.handlers:
                                h.body = rewrite(h.body) or [ast.copy_location(ast.Pass(), h)]
                    out.append(st_)
                return out

            tree.body = rewrite(tree.body)
            changed.add(rel)
            report.append(("inlined-import-time-helper", f"{rel}:{D.name}"))
    return changed


def lower_callable_objects(trees, report, unknown=None):
    """A new class with only `__init__` (plain stores of its parameters into fields) and `__call__` (which only reads
    the fields), whose every use in the package is a module-level `NAME = K(<constants / module names>)`, is a
    function factory applied at import time; each NAME is the function `__call__` with the fields replaced by what
    was stored in them:
        class K: def __init__(self, *cs): self.cs = cs                _check = K(bool)
                 def __call__(self, d, **kw): return isinstance(d, self.cs)
        ==>     def _check(d, **kw): return isinstance(d, (bool,))
    Side conditions: the arguments are constants, names or tuples of these (no call: nothing is evaluated later
    than before that could differ), none of their names is a local of `__call__`, `self` is used in `__call__` only
    to read fields, NAME is bound once."""
    inv = load_inventory()
    if inv is None:
        return set()
    changed = set()
    for rel, tree in list(trees.items()):
        if rel not in inv.get("globals", {}):
            continue
        known = set(inv.get("globals", {}).get(rel, ()))
        for K in [s for s in tree.body if isinstance(s, ast.ClassDef) and s.name not in known]:
            if K.bases or K.decorator_list or K.keywords:
                continue
            methods, ok = {}, True
            for st in K.body:
                if isinstance(st, ast.FunctionDef):
                    if st.decorator_list or st.args.posonlyargs or not st.args.args:
                        ok = False
                    methods[st.name] = st
                elif isinstance(st, ast.Expr) and isinstance(st.value, ast.Constant):
                    continue
                elif isinstance(st, ast.Pass) or (isinstance(st, ast.AnnAssign) and st.value is None):
                    continue
                elif isinstance(st, ast.Assign) and all(isinstance(t, ast.Name) and t.id == "__slots__" for t in st.targets):
                    continue
                else:
                    ok = False
            if not ok or set(methods) != {"__init__", "__call__"}:
                continue
            init, call = methods["__init__"], methods["__call__"]
            if init.args.kwarg or init.args.kwonlyargs or init.args.defaults:
                continue
            sname = init.args.args[0].arg
            iparams = [a.arg for a in init.args.args[1:]]
            ivar = init.args.vararg.arg if init.args.vararg else None
            inits = {}
            for st in _strip_doc(init.body):
                if isinstance(st, ast.Pass):
                    continue
                if isinstance(st, ast.AnnAssign) and st.value is not None:
                    tgt, val = st.target, st.value
                elif isinstance(st, ast.Assign) and len(st.targets) == 1:
                    tgt, val = st.targets[0], st.value
                else:
                    ok = False
                    break
                if not (isinstance(tgt, ast.Attribute) and isinstance(tgt.value, ast.Name) and tgt.value.id == sname) or tgt.attr in inits or not _simple_arg(val):
                    ok = False
                    break
                if any(isinstance(x, ast.Name) and x.id not in iparams and x.id != ivar for x in ast.walk(val)):
                    ok = False
                    break
                inits[tgt.attr] = val
            if not ok:
                continue
            cself = call.args.args[0].arg
            reads = [n for n in _walk_own(call) if isinstance(n, ast.Attribute) and isinstance(n.value, ast.Name) and n.value.id == cself]
            selfs = [n for n in _walk_own(call) if isinstance(n, ast.Name) and n.id == cself]
            if len(reads) != len(selfs) or any(not isinstance(r.ctx, ast.Load) or r.attr not in inits for r in reads):
                continue
            if any(isinstance(n, (ast.FunctionDef, ast.Lambda, ast.ClassDef, ast.Global, ast.Nonlocal)) for n in _walk_own(call) if n is not call):
                continue
            # every reference to K in the package
            uses = []
            good = True
            for r2, t2 in trees.items():
                for n in ast.walk(t2):
                    if isinstance(n, ast.Name) and n.id == K.name:
                        uses.append((r2, n))
                    elif isinstance(n, ast.ImportFrom) and any(a.name == K.name for a in n.names):
                        good = False
                    elif isinstance(n, ast.Attribute) and n.attr == K.name:
                        good = False
            sites = []
            for st in tree.body:
                if isinstance(st, ast.Assign) and len(st.targets) == 1 and isinstance(st.targets[0], ast.Name) and isinstance(st.value, ast.Call) and isinstance(st.value.func, ast.Name) and st.value.func.id == K.name:
                    sites.append(st)
            if not good or not sites or len(uses) != len(sites) or any(r2 != rel for r2, _ in uses):
                continue
            call_locals = local_names(call) | {a.arg for a in call.args.args + call.args.kwonlyargs} | ({call.args.vararg.arg} if call.args.vararg else set()) | ({call.args.kwarg.arg} if call.args.kwarg else set())
            plans = []
            for st in sites:
                c = st.value
                nm = st.targets[0].id
                stores = sum(1 for n in ast.walk(tree) if isinstance(n, ast.Name) and n.id == nm and isinstance(n.ctx, (ast.Store, ast.Del)))
                defs = sum(1 for n in ast.walk(tree) if isinstance(n, (ast.FunctionDef, ast.ClassDef)) and n.name == nm)
                if stores != 1 or defs or c.keywords or any(isinstance(a, ast.Starred) or not _simple_arg(a) or isinstance(a, ast.IfExp) for a in c.args):
                    good = False
                    break
                if any(isinstance(x, ast.Name) and x.id in call_locals for a in c.args for x in ast.walk(a)):
                    good = False
                    break
                if len(c.args) < len(iparams) or (len(c.args) > len(iparams) and ivar is None):
                    good = False
                    break
                binding = {p: a for p, a in zip(iparams, c.args)}
                if ivar is not None:
                    binding[ivar] = ast.Tuple(elts=list(c.args[len(iparams):]), ctx=ast.Load())
                plans.append((st, nm, binding))
            if not good:
                continue
            for st, nm, binding in plans:
                fields = {f: _SubstLoads(binding).visit(copy.deepcopy(v)) for f, v in inits.items()}

                class F(ast.NodeTransformer):
                    def visit_Attribute(self, n):
                        if isinstance(n.value, ast.Name) and n.value.id == cself:
                            return ast.copy_location(copy.deepcopy(fields[n.attr]), n)
                        self.generic_visit(n)
                        return n

                fn = copy.deepcopy(call)
                fn.name = nm
                fn.args.args = fn.args.args[1:]
                fn.body = [F().visit(x) for x in _strip_doc(fn.body)] or [ast.Pass()]
                ast.copy_location(fn, st)
                ast.fix_missing_locations(fn)
                tree.body[tree.body.index(st)] = fn
                if isinstance(unknown, set) and nm not in known:
                    unknown.add((rel, nm))
                report.append(("callable-object", f"{rel}:{nm}"))
            tree.body = [s2 for s2 in tree.body if s2 is not K]
            changed.add(rel)
    return changed


def lower_static_classes(trees, report, unknown=None):
    """A new class that only groups functions (every method a `@staticmethod`) and class-level constants / tables, never
    instantiated, and only ever used as `<Class>.name`, is a namespace: its methods are module-level functions and its
    class-level assignments module-level assignments (in the same order, after the functions), `<Class>.name` is `name`
    (`<Class>__name` when the module already has that name)."""
    inv = load_inventory()
    if inv is None:
        return set()
    changed = set()
    for rel, tree in list(trees.items()):
        if rel not in inv.get("globals", {}):
            continue
        known = set(inv.get("globals", {}).get(rel, ()))
        for K in [s for s in tree.body if isinstance(s, ast.ClassDef) and s.name not in known]:
            if K.decorator_list or K.keywords or any(not (isinstance(b, ast.Name) and b.id == "object") for b in K.bases):
                continue
            members, ok = [], True
            for st in K.body:
                if isinstance(st, ast.Expr) and isinstance(st.value, ast.Constant):
                    continue
                if isinstance(st, ast.Pass):
                    continue
                if isinstance(st, ast.Assign) and len(st.targets) == 1 and isinstance(st.targets[0], ast.Name) and st.targets[0].id == "__slots__":
                    continue  # never instantiated: the slots say nothing
                if isinstance(st, ast.FunctionDef) and [ast.unparse(d) for d in st.decorator_list] == ["staticmethod"] and not st.name.startswith("__"):
                    members.append(st)
                    continue
                if isinstance(st, ast.FunctionDef) and [ast.unparse(d) for d in st.decorator_list] == ["classmethod"] and not st.name.startswith("__") and st.args.args:
                    # `cls` only as `cls.<member>` or `getattr(cls, <expr>)`: checked once the members are known
                    members.append(st)
                    continue
                if isinstance(st, ast.Assign) and len(st.targets) == 1 and isinstance(st.targets[0], ast.Name) and not st.targets[0].id.startswith("__"):
                    members.append(st)
                    continue
                if isinstance(st, ast.AnnAssign) and isinstance(st.target, ast.Name) and st.value is not None:
                    members.append(st)
                    continue
                ok = False
            if not ok or not any(isinstance(m, ast.FunctionDef) for m in members):
                continue
            # class attributes defined after the class body at module level: `K.attr = expr`
            late = [st for st in tree.body if isinstance(st, ast.Assign) and len(st.targets) == 1 and isinstance(st.targets[0], ast.Attribute) and isinstance(st.targets[0].value, ast.Name) and st.targets[0].value.id == K.name]
            names = [m.name if isinstance(m, ast.FunctionDef) else (m.targets[0].id if isinstance(m, ast.Assign) else m.target.id) for m in members] + [st.targets[0].attr for st in late]
            if len(set(names)) != len(names):
                continue
            # classmethods: `cls` used only to reach members
            cm_ok = True
            for m in members:
                if isinstance(m, ast.FunctionDef) and [ast.unparse(d) for d in m.decorator_list] == ["classmethod"]:
                    cn = m.args.args[0].arg
                    pmc = {}
                    for n in ast.walk(m):
                        for c in ast.iter_child_nodes(n):
                            pmc[id(c)] = n
                    for n in ast.walk(m):
                        if isinstance(n, ast.Name) and n.id == cn:
                            par = pmc.get(id(n))
                            if isinstance(par, ast.Attribute) and par.value is n and par.attr in names and isinstance(par.ctx, ast.Load):
                                continue
                            if isinstance(par, ast.Call) and isinstance(par.func, ast.Name) and par.func.id == "getattr" and len(par.args) == 2 and par.args[0] is n:
                                continue
                            cm_ok = False
            if not cm_ok:
                continue
            # every use of the class name: <K>.member loads
            good = True
            for r2, t2 in trees.items():
                pm = {}
                for n in ast.walk(t2):
                    for c in ast.iter_child_nodes(n):
                        pm[id(c)] = n
                for n in ast.walk(t2):
                    if isinstance(n, ast.Name) and n.id == K.name:
                        par = pm.get(id(n))
                        if isinstance(par, ast.Attribute) and par.value is n and par.attr in names and isinstance(par.ctx, ast.Store) and any(par is st.targets[0] for st in late):
                            continue
                        if not (isinstance(par, ast.Attribute) and par.value is n and par.attr in names and isinstance(par.ctx, ast.Load)):
                            good = False
                    elif isinstance(n, ast.Attribute) and n.attr == K.name:
                        good = False
            if not good:
                continue
            from .refnorm import module_globals

            taken = (module_globals(tree) - {K.name})
            new_name = {nm: (nm if nm not in taken else f"{K.name}__{nm}") for nm in names}
            if any(v in taken for v in new_name.values()):
                continue

            class R(ast.NodeTransformer):
                def visit_Attribute(self, n):
                    self.generic_visit(n)
                    if isinstance(n.value, ast.Name) and n.value.id == K.name and n.attr in new_name:
                        return ast.copy_location(ast.Name(id=new_name[n.attr], ctx=ast.Load()), n)
                    return n

            hoisted = []
            for st in late:
                st.targets[0] = ast.copy_location(ast.Name(id=new_name[st.targets[0].attr], ctx=ast.Store()), st.targets[0])
            member_fns = [m.name for m in members if isinstance(m, ast.FunctionDef)]
            for m in members:
                if isinstance(m, ast.FunctionDef):
                    if [ast.unparse(d) for d in m.decorator_list] == ["classmethod"]:
                        cn = m.args.args[0].arg
                        others = [nm_ for nm_ in names if nm_ != m.name]
                        lookup = ast.Dict(keys=[ast.Constant(value=nm_) for nm_ in others], values=[ast.Name(id=new_name[nm_], ctx=ast.Load()) for nm_ in others])

                        class RC(ast.NodeTransformer):
                            def visit_Attribute(self, n):
                                self.generic_visit(n)
                                if isinstance(n.value, ast.Name) and n.value.id == cn and n.attr in new_name:
                                    return ast.copy_location(ast.Name(id=new_name[n.attr], ctx=ast.Load()), n)
                                return n

                            def visit_Call(self, n):
                                self.generic_visit(n)
                                if isinstance(n.func, ast.Name) and n.func.id == "getattr" and len(n.args) == 2 and isinstance(n.args[0], ast.Name) and n.args[0].id == cn:
                                    # getattr(cls, E): the member named E
                                    return ast.copy_location(ast.Subscript(value=copy.deepcopy(lookup), slice=n.args[1], ctx=ast.Load()), n)
                                return n

                        RC().visit(m)
                        m.args.args = m.args.args[1:]
                    m.decorator_list = []
                    m.name = new_name[m.name]
                elif isinstance(m, ast.Assign):
                    m.targets[0].id = new_name[m.targets[0].id]
                else:
                    m.target.id = new_name[m.target.id]
                hoisted.append(m)
            # inside the class body, members refer to each other by bare name (class scope) only in class-level
            # assignments: rename those too
            class RB(ast.NodeTransformer):
                def visit_Name(self, n):
                    if isinstance(n.ctx, ast.Load) and n.id in new_name and new_name[n.id] != n.id:
                        return ast.copy_location(ast.Name(id=new_name[n.id], ctx=ast.Load()), n)
                    return n

            for m in hoisted:
                if not isinstance(m, ast.FunctionDef):
                    m.value = RB().visit(m.value)
            idx = tree.body.index(K)
            tree.body[idx:idx + 1] = hoisted
            for r2, t2 in trees.items():
                R().visit(t2)
                for n in ast.walk(t2):
                    if isinstance(n, ast.ImportFrom) and any(a.name == K.name for a in n.names):
                        used = sorted({x.id for x in ast.walk(t2) if isinstance(x, ast.Name) and x.id in new_name.values()})
                        n.names = [a for a in n.names if a.name != K.name] + [ast.alias(name=u, asname=None) for u in used if not any(a.name == u for a in n.names)]
                        if not n.names:
                            n.names = [ast.alias(name=new_name[names[0]], asname=None)]
                ast.fix_missing_locations(t2)
                changed.add(r2)
            if isinstance(unknown, set):
                for m in hoisted:
                    if isinstance(m, ast.FunctionDef) and m.name not in known:
                        unknown.add((rel, m.name))
            report.append(("static-class", f"{rel}:{K.name}"))
    return changed


def resolve_module_aliases(trees, report, unknown=None):
    """Module-level `A = B` where B is a module-level name the reference does not have, bound once (to a function
    definition or to a display) and read nowhere but in that assignment: B is renamed A and the assignment goes (one
    object, one name).  With several aliases of one function (`a = f`, read elsewhere as `f`) the function takes the
    name the reference knows and the other reads follow."""
    inv = load_inventory()
    if inv is None:
        return set()
    changed = set()
    for rel, tree in list(trees.items()):
        if rel not in inv.get("globals", {}):
            continue
        known = set(inv.get("globals", {}).get(rel, ()))
        again = True
        while again:
            again = False
            defs = {}
            for st in tree.body:
                if isinstance(st, (ast.FunctionDef, ast.AsyncFunctionDef)):
                    defs.setdefault(st.name, []).append(st)
                elif isinstance(st, ast.Assign) and len(st.targets) == 1 and isinstance(st.targets[0], ast.Name):
                    defs.setdefault(st.targets[0].id, []).append(st)
            for st in list(tree.body):
                if not (isinstance(st, ast.Assign) and len(st.targets) == 1 and isinstance(st.targets[0], ast.Name) and isinstance(st.value, ast.Name)):
                    continue
                A, B = st.targets[0].id, st.value.id
                if A == B or B in known or len(defs.get(B, [])) != 1 or len(defs.get(A, [])) != 1:
                    continue
                bdef = defs[B][0]
                if tree.body.index(bdef) > tree.body.index(st):
                    continue
                is_fn = isinstance(bdef, (ast.FunctionDef, ast.AsyncFunctionDef))
                is_disp = isinstance(bdef, ast.Assign) and isinstance(bdef.value, (ast.Dict, ast.List, ast.Set, ast.Tuple))
                if not (is_fn or is_disp):
                    continue
                stores_b = sum(1 for n in ast.walk(tree) if isinstance(n, ast.Name) and n.id == B and isinstance(n.ctx, (ast.Store, ast.Del)))
                if stores_b > (0 if is_fn else 1) or any(isinstance(n, (ast.Global, ast.Nonlocal)) and (A in n.names or B in n.names) for n in ast.walk(tree)):
                    continue
                # B imported elsewhere under its own name?
                if any(isinstance(n, ast.ImportFrom) and any(a.name == B for a in n.names) for r2, t2 in trees.items() if r2 != rel for n in ast.walk(t2)):
                    continue
                loads_b = [n for n in ast.walk(tree) if isinstance(n, ast.Name) and n.id == B and isinstance(n.ctx, ast.Load)]
                # every read of B is a read of the one object both names denote: all of them become A
                # rename B -> A
                for n in ast.walk(tree):
                    if isinstance(n, ast.Name) and n.id == B:
                        n.id = A
                if is_fn:
                    bdef.name = A
                tree.body = [x for x in tree.body if x is not st]
                if isinstance(unknown, set) and is_fn:
                    unknown.discard((rel, B))
                    if A not in known:
                        unknown.add((rel, A))
                report.append(("module-alias", f"{rel}:{B}->{A}"))
                changed.add(rel)
                again = True
                break
    return changed


def scalarise_local_objects(trees, report, unknown=None):
    """A private class the reference does not know, without bases, whose __init__ only fills fields of `self` (by
    any code that does not let `self` escape) and whose other methods are single `return <expression>`s, every instance
    of which lives in one local of one function (`v = K(a, b)`, then only `v.field` reads and `v.method(..)` calls):
    the local is replaced by one local per field, the constructor body is expanded in place, method calls by their
    expression.  (An index built in a constructor, a pair of tables travelling together inside one function.)"""
    inv = load_inventory()
    if inv is None:
        return set()
    changed = set()
    known = {c for rel in inv.get("modules", {}) for c in inv["modules"][rel] if "." not in c}
    classes = {}
    for rel, t in trees.items():
        for st in t.body:
            if isinstance(st, ast.ClassDef) and st.name.startswith("_") and not st.bases and not st.decorator_list and not st.keywords:
                if any(st.name == k or k.startswith(st.name + ".") for k in inv.get("modules", {}).get(rel, {})):
                    continue
                classes[st.name] = (rel, st)
    for K, (rel, cnode) in list(classes.items()):
        init, methods, ok = None, {}, True
        for st in cnode.body:
            if isinstance(st, ast.Expr) and isinstance(st.value, ast.Constant):
                continue
            if isinstance(st, ast.Assign) and len(st.targets) == 1 and isinstance(st.targets[0], ast.Name) and st.targets[0].id == "__slots__":
                continue
            if isinstance(st, ast.AnnAssign) and st.value is None:
                continue
            if isinstance(st, ast.FunctionDef) and not st.decorator_list and st.args.args and st.args.args[0].arg == "self" and not st.args.vararg and not st.args.kwarg and not st.args.kwonlyargs and not st.args.defaults:
                if st.name == "__init__":
                    init = st
                elif not st.name.startswith("__"):
                    body = _strip_doc(st.body)
                    if len(body) == 1 and isinstance(body[0], ast.Return) and body[0].value is not None:
                        methods[st.name] = (st, body[0].value)
                    else:
                        ok = False
                else:
                    ok = False
            else:
                ok = False
        if not ok or init is None:
            continue
        # self does not escape from __init__ and the methods: only `self.<field>` occurrences
        fields = set()
        for fn in [init] + [m for m, _ in methods.values()]:
            pm = {}
            for n in ast.walk(fn):
                for c in ast.iter_child_nodes(n):
                    pm[id(c)] = n
            for n in ast.walk(fn):
                if isinstance(n, ast.Name) and n.id == "self":
                    par = pm.get(id(n))
                    if not (isinstance(par, ast.Attribute) and par.value is n):
                        ok = False
                    elif fn is init:
                        fields.add(par.attr)
                if isinstance(n, (ast.Return,)) and fn is init and n.value is not None:
                    ok = False
                if isinstance(n, (ast.Yield, ast.YieldFrom, ast.Await, ast.Lambda, ast.FunctionDef)) and n is not fn:
                    ok = False
        if not ok or fields & set(methods):
            continue
        # every use of the class name: `v = K(args)` with plain arguments, v a local of a function
        uses = [(r2, n) for r2, t in trees.items() for n in ast.walk(t) if isinstance(n, ast.Name) and n.id == K]
        anns = set()
        for r2, t in trees.items():
            for n in ast.walk(t):
                if isinstance(n, ast.arg) and n.annotation is not None:
                    anns |= {id(x) for x in ast.walk(n.annotation)}
                elif isinstance(n, ast.AnnAssign):
                    anns |= {id(x) for x in ast.walk(n.annotation)}
                elif isinstance(n, (ast.FunctionDef, ast.AsyncFunctionDef)) and n.returns is not None:
                    anns |= {id(x) for x in ast.walk(n.returns)}
        sites = []
        for r2, t in trees.items():
            for fn in ast.walk(t):
                if not isinstance(fn, (ast.FunctionDef, ast.AsyncFunctionDef)):
                    continue
                for blk_owner in ast.walk(fn):
                    for fld in ("body", "orelse", "finalbody"):
                        blk = getattr(blk_owner, fld, None)
                        if not isinstance(blk, list):
                            continue
                        for i, st in enumerate(blk):
                            if isinstance(st, ast.Assign) and len(st.targets) == 1 and isinstance(st.targets[0], ast.Name) and isinstance(st.value, ast.Call) and isinstance(st.value.func, ast.Name) and st.value.func.id == K:
                                sites.append((r2, fn, blk, i, st))
        site_funcs = {id(x[4].value.func) for x in sites}
        if not sites or any(id(n) not in site_funcs and id(n) not in anns for _, n in uses):
            continue
        params = [a.arg for a in init.args.args[1:]]
        good = True
        plans = []
        for r2, fn, blk, i, st in sites:
            v = st.targets[0].id
            call = st.value
            if call.keywords or len(call.args) != len(params) or any(isinstance(a, ast.Starred) for a in call.args):
                good = False
                break
            # v: bound here only, used only as v.<field> (load) or v.<method>(..)
            pm = {}
            for n in ast.walk(fn):
                for c in ast.iter_child_nodes(n):
                    pm[id(c)] = n
            for n in ast.walk(fn):
                if isinstance(n, ast.Name) and n.id == v and n is not st.targets[0]:
                    par = pm.get(id(n))
                    if not (isinstance(par, ast.Attribute) and par.value is n and isinstance(par.ctx, ast.Load) and isinstance(n.ctx, ast.Load)):
                        good = False
                    elif par.attr in methods:
                        gp = pm.get(id(par))
                        m_args = [a.arg for a in methods[par.attr][0].args.args[1:]]
                        if not (isinstance(gp, ast.Call) and gp.func is par and not gp.keywords and len(gp.args) == len(m_args) and all(isinstance(a, (ast.Name, ast.Constant)) or (isinstance(a, ast.Subscript) and isinstance(a.value, ast.Name) and isinstance(a.slice, ast.Constant)) for a in gp.args)):
                            good = False
                    elif par.attr not in fields:
                        good = False
                if isinstance(n, (ast.FunctionDef, ast.Lambda)) and n is not fn and any(isinstance(x, ast.Name) and x.id == v for x in ast.walk(n)):
                    good = False
            taken = {n.id for n in ast.walk(fn) if isinstance(n, ast.Name)} | {a.arg for a in fn.args.args}
            if any(f"{v}__{f}" in taken for f in fields) or any(f"{v}__arg_{q}" in taken for q in params):
                good = False
            if not good:
                break
            plans.append((r2, fn, blk, i, st, v))
        if not good:
            continue
        for r2, fn, blk, i, st, v in plans:
            call = st.value
            init_locals = {n.id for n in ast.walk(init) if isinstance(n, ast.Name) and isinstance(n.ctx, ast.Store)}
            ren = {q: f"{v}__arg_{q}" for q in params}
            ren.update({l: f"{v}__{l}_" for l in init_locals if l not in ren})

            class InitT(ast.NodeTransformer):
                def visit_Attribute(self, n):
                    if isinstance(n.value, ast.Name) and n.value.id == "self":
                        return ast.copy_location(ast.Name(id=f"{v}__{n.attr}", ctx=n.ctx), n)
                    self.generic_visit(n)
                    return n

                def visit_Name(self, n):
                    if n.id in ren:
                        return ast.copy_location(ast.Name(id=ren[n.id], ctx=n.ctx), n)
                    return n

            pre = [ast.copy_location(ast.Assign(targets=[ast.Name(id=ren[q], ctx=ast.Store())], value=a), st) for q, a in zip(params, call.args)]
            body = [InitT().visit(copy.deepcopy(x)) for x in _strip_doc(init.body)]
            for x in pre + body:
                ast.copy_location(x, st)
                ast.fix_missing_locations(x)
            blk[i:i + 1] = pre + body

            class UseT(ast.NodeTransformer):
                def visit_Call(self, n):
                    if isinstance(n.func, ast.Attribute) and isinstance(n.func.value, ast.Name) and n.func.value.id == v and n.func.attr in methods:
                        mnode, expr = methods[n.func.attr]
                        m_args = [a.arg for a in mnode.args.args[1:]]
                        sub = dict(zip(m_args, n.args))

                        class M(ast.NodeTransformer):
                            def visit_Attribute(self, a):
                                if isinstance(a.value, ast.Name) and a.value.id == "self":
                                    return ast.copy_location(ast.Name(id=f"{v}__{a.attr}", ctx=ast.Load()), a)
                                self.generic_visit(a)
                                return a

                            def visit_Name(self, a):
                                if a.id in sub and isinstance(a.ctx, ast.Load):
                                    return copy.deepcopy(sub[a.id])
                                return a

                        out = M().visit(copy.deepcopy(expr))
                        ast.copy_location(out, n)
                        ast.fix_missing_locations(out)
                        return out
                    self.generic_visit(n)
                    return n

                def visit_Attribute(self, n):
                    if isinstance(n.value, ast.Name) and n.value.id == v and n.attr in fields:
                        return ast.copy_location(ast.Name(id=f"{v}__{n.attr}", ctx=ast.Load()), n)
                    self.generic_visit(n)
                    return n

            for k, x in enumerate(fn.body):
                fn.body[k] = UseT().visit(x)
            ast.fix_missing_locations(fn)
            changed.add(r2)
        trees[rel].body = [x for x in trees[rel].body if x is not cnode]
        changed.add(rel)
        report.append(("scalarised-object", f"{rel}:{K}"))
    return changed


def undo(trees, unknown, report):
    """all three steps; returns the relpaths whose tree changed"""
    from .canon import canonicalise

    changed = set()
    a = lower_records(trees, report, unknown if isinstance(unknown, set) else None)
    for rel in a:
        canonicalise(trees[rel])
    changed |= a
    e = eliminate_config_objects(trees, report, unknown if isinstance(unknown, set) else None)
    for rel in e:
        canonicalise(trees[rel])
    changed |= e
    e3 = lower_static_classes(trees, report, unknown if isinstance(unknown, set) else None)
    for rel in e3:
        canonicalise(trees[rel])
    changed |= e3
    e4 = resolve_module_aliases(trees, report, unknown if isinstance(unknown, set) else None)
    for rel in e4:
        canonicalise(trees[rel])
    changed |= e4
    e2 = lower_callable_objects(trees, report, unknown if isinstance(unknown, set) else None)
    for rel in e2:
        canonicalise(trees[rel])
    changed |= e2
    e5 = scalarise_local_objects(trees, report, unknown if isinstance(unknown, set) else None)
    for rel in e5:
        canonicalise(trees[rel])
    changed |= e5
    if isinstance(unknown, set) and not unknown:
        # no new function, but a known one may have got a new carrier parameter (a record class that was just lowered)
        b = flatten_tuple_params(trees, unknown, report)
        for rel in b:
            canonicalise(trees[rel])
        changed |= b
    if unknown:
        b = flatten_tuple_params(trees, unknown, report)
        for rel in b:
            canonicalise(trees[rel])
        c = fuse_wrappers(trees, unknown, report)
        for rel in c:
            canonicalise(trees[rel])
        d = inline_import_time_helpers(trees, unknown, report)
        for rel in d:
            canonicalise(trees[rel])
        changed |= b | c | d
    return changed
