"""Finite-domain evaluation of guard expressions (decision-table extraction).

An if/elif chain of comparisons against string literals is turned into a finite
relation by evaluating its *guards* on every element of a finite domain (the 8
primitive names; propositional atoms).  Only boolean guard expressions and the
control skeleton (if / return / raise / simple rebinding) are interpreted, by
this module's own three-valued evaluator on the syntax tree; anything outside
the evaluable fragment is Unknown (None), which can only make a rule less able
to report.  No repository code is executed.
"""
import ast

UNKNOWN = None


def eval_bool(e, env, atoms=None):
    """env: name -> python value (str/None/bool); atoms: normalised guard text -> bool"""
    atoms = atoms or {}
    txt = ast.unparse(e)
    if txt in atoms:
        return atoms[txt]
    if atoms and isinstance(e, (ast.Compare, ast.UnaryOp)):
        # an atom may be given in its negated spelling (`k not in d` for `k in d`)
        from .canon import negate
        import copy

        neg = ast.unparse(negate(copy.deepcopy(e)))
        if neg in atoms:
            return not atoms[neg]
    if isinstance(e, ast.BoolOp):
        vals = [eval_bool(v, env, atoms) for v in e.values]
        if isinstance(e.op, ast.And):
            if any(v is False for v in vals):
                return False
            return True if all(v is True for v in vals) else UNKNOWN
        if any(v is True for v in vals):
            return True
        return False if all(v is False for v in vals) else UNKNOWN
    if isinstance(e, ast.UnaryOp) and isinstance(e.op, ast.Not):
        v = eval_bool(e.operand, env, atoms)
        return UNKNOWN if v is UNKNOWN else (not v)
    if isinstance(e, ast.Compare) and len(e.ops) == 1 and isinstance(e.ops[0], (ast.Is, ast.IsNot, ast.Eq, ast.NotEq)):
        # `type(x) is int` on a representative
        known_t = {"list": list, "dict": dict, "str": str, "tuple": tuple, "int": int, "bool": bool, "float": float, "bytes": bytes}
        for a_, b_ in ((e.left, e.comparators[0]), (e.comparators[0], e.left)):
            if isinstance(a_, ast.Call) and isinstance(a_.func, ast.Name) and a_.func.id == "type" and "type" not in env and len(a_.args) == 1 and not a_.keywords and isinstance(b_, ast.Name) and b_.id in known_t and b_.id not in env:
                v = value_of(a_.args[0], env)
                if v is _NOVAL or v is _RAISES or isinstance(v, _Ast):
                    return UNKNOWN
                r = type(v) is known_t[b_.id]
                return r if isinstance(e.ops[0], (ast.Is, ast.Eq)) else (not r)
    if isinstance(e, ast.Compare):
        left = value_of(e.left, env)
        res = True
        for op, c in zip(e.ops, e.comparators):
            right = value_of(c, env)
            r = _cmp(left, op, right)
            if r is False:
                return False
            if r is UNKNOWN:
                res = UNKNOWN
            left = right
        return res
    if isinstance(e, ast.Call) and isinstance(e.func, ast.Name) and e.func.id == "isinstance" and len(e.args) == 2:
        v = value_of(e.args[0], env)
        if v is _NOVAL:
            return UNKNOWN
        targ = _table_entry(e.args[1], env) or e.args[1]
        if isinstance(targ, ast.Name) and isinstance(env.get(targ.id), _Ast):
            targ = env[targ.id].node
        tnames = [ast.unparse(t) for t in (targ.elts if isinstance(targ, ast.Tuple) else [targ])]
        known = {"list": list, "dict": dict, "str": str, "tuple": tuple, "int": int, "bool": bool, "float": float, "bytes": bytes}
        if all(t in known for t in tnames):
            return isinstance(v, tuple(known[t] for t in tnames))
        return UNKNOWN
    if isinstance(e, ast.Call) and isinstance(e.func, ast.Name) and e.func.id in ("any", "all") and e.func.id not in env and len(e.args) == 1 and not e.keywords and isinstance(e.args[0], (ast.GeneratorExp, ast.ListComp)) and len(e.args[0].generators) == 1 and isinstance(e.args[0].generators[0].target, ast.Name):
        g_ = e.args[0].generators[0]
        rows = value_of(g_.iter, env)
        if isinstance(rows, list):
            res = e.func.id == "all"
            unknown = False
            for row in rows:
                env2 = dict(env)
                env2[g_.target.id] = row
                conds = [eval_bool(c, env2, atoms) for c in g_.ifs]
                if any(c is False for c in conds):
                    continue
                v = eval_bool(e.args[0].elt, env2, atoms)
                if v is UNKNOWN or any(c is UNKNOWN for c in conds):
                    unknown = True
                    continue
                if e.func.id == "any" and v:
                    return True
                if e.func.id == "all" and not v:
                    return False
            return UNKNOWN if unknown else res
    if isinstance(e, ast.Name):
        v = value_of(e, env)
        return UNKNOWN if v is _NOVAL else bool(v)
    if isinstance(e, ast.Constant):
        return bool(e.value)
    if isinstance(e, ast.Call) and isinstance(e.func, ast.Name) and isinstance(env.get(e.func.id), _Ast):
        applied = _apply_kept(e, env)
        if applied is not e:
            return eval_bool(applied, env, atoms)
    if isinstance(e, (ast.Call, ast.Subscript)) and not (isinstance(e, ast.Call) and isinstance(e.func, ast.Name)):
        # a lookup whose value is known (`options.get('strict')` on a known dict): its truth
        v = value_of(e, env)
        if v is not _NOVAL and v is not _RAISES and not isinstance(v, _Ast):
            return bool(v)
    if isinstance(e, ast.Call) and HOOK.get("call") is not None:
        return HOOK["call"](e, env, atoms)
    return UNKNOWN


HOOK = {"call": None, "value": None}  # optional evaluator for calls of program functions: (call node, env, atoms) -> bool | UNKNOWN


def program_call_evaluator(program, modules, max_depth=3, want_value=False):
    """calls of the program's own predicate functions are evaluated by interpreting the callee's control skeleton
    on the argument values (same finite-domain evaluation, one level of the call graph at a time)"""
    depth = [0]

    def hook(call, env, atoms=None):
        if not isinstance(call.func, ast.Name) or call.keywords or depth[0] >= max_depth:
            return _NOVAL if want_value else UNKNOWN
        f = None
        for m in modules:
            f = program.resolve_func(m, call.func)
            if f is not None:
                break
        if f is None or f.cls is not None:
            return _NOVAL if want_value else UNKNOWN
        params = f.pos_params
        if len(call.args) > len(params) or any(isinstance(a, ast.Starred) for a in call.args):
            return _NOVAL if want_value else UNKNOWN
        env2 = {}
        for pn, a in zip(params, call.args):
            v = value_of(a, env)
            if v is not _NOVAL and v is not _RAISES:
                env2[pn] = v
            elif v is _NOVAL and (isinstance(a, ast.Name) and a.id in ("list", "dict", "str", "tuple", "int", "bool", "float", "bytes") or (isinstance(a, ast.Tuple) and all(isinstance(x, ast.Name) for x in a.elts))):
                env2[pn] = _Ast(a)  # a type passed as an argument
        for pn, d in zip(params[len(params) - len(f.node.args.defaults):], f.node.args.defaults):
            if pn not in env2 and params.index(pn) >= len(call.args) and isinstance(d, ast.Constant):
                env2[pn] = d.value
        depth[0] += 1
        saved = dict(LAST)
        try:
            r = run_chain(f.node.body, env2, atoms)
            if r[0] == "return":
                if want_value:
                    return value_of(r[1], LAST.get("ret_env", env2)) if r[1] is not None else None
                return eval_bool(r[1], LAST.get("ret_env", env2), atoms) if r[1] is not None else False
            return _NOVAL if want_value else UNKNOWN
        finally:
            depth[0] -= 1
            LAST.clear()
            LAST.update(saved)

    return hook


class _NoVal:
    pass


_NOVAL = _NoVal()


class _Raises:
    """evaluating the expression on this representative raises TypeError / ValueError"""


_RAISES = _Raises()


class _Ast:
    """an expression kept as syntax (a function, a lambda, ...) inside an otherwise literal table"""

    def __init__(self, node):
        self.node = node

    def __eq__(self, other):
        return isinstance(other, _Ast) and ast.dump(other.node) == ast.dump(self.node)

    def __hash__(self):
        return hash(ast.dump(self.node))


def value_of(e, env):
    if isinstance(e, ast.Constant):
        return e.value
    if isinstance(e, ast.UnaryOp) and isinstance(e.op, ast.USub) and isinstance(e.operand, ast.Constant) and isinstance(e.operand.value, (int, float)):
        return -e.operand.value
    if isinstance(e, ast.Name):
        return env.get(e.id, _NOVAL)
    if isinstance(e, ast.IfExp):
        t = eval_bool(e.test, env)
        if t is None:
            return _NOVAL
        return value_of(e.body if t else e.orelse, env)
    if isinstance(e, (ast.List, ast.Tuple, ast.Set)):
        vals = [value_of(x, env) for x in e.elts]
        # a table row may carry functions next to its literal columns: kept as syntax
        vals = [(_Ast(x) if (v is _NOVAL and isinstance(x, (ast.Name, ast.Lambda, ast.Call, ast.Attribute)) and not isinstance(getattr(x, "ctx", None), ast.Store) and not (isinstance(x, ast.Name) and x.id in env)) else v) for v, x in zip(vals, e.elts)]
        if any(v is _NOVAL for v in vals):
            return _NOVAL
        return vals
    if isinstance(e, ast.Call) and isinstance(e.func, ast.Attribute) and e.func.attr == "get" and (isinstance(e.func.value, ast.Dict) or (isinstance(e.func.value, ast.Name) and isinstance(env.get(e.func.value.id), dict))) and e.args and not e.keywords:
        k = value_of(e.args[0], env)
        tbl = value_of(e.func.value, env)
        if k is _NOVAL or isinstance(k, list) or not isinstance(tbl, dict):
            return _NOVAL
        if k in tbl:
            v = value_of(tbl[k], env) if isinstance(tbl[k], ast.AST) else tbl[k]
            if v is _NOVAL and isinstance(tbl[k], (ast.Name, ast.Call, ast.Lambda, ast.Attribute)) and not (isinstance(tbl[k], ast.Name) and tbl[k].id in env):
                return _Ast(tbl[k])  # a function stored in the table
            return v
        return value_of(e.args[1], env) if len(e.args) > 1 else None
    if isinstance(e, ast.Subscript) and isinstance(e.value, ast.Name) and isinstance(env.get(e.value.id), dict):
        k = value_of(e.slice, env)
        d = env[e.value.id]
        if k is not _NOVAL and not isinstance(k, list) and k in d and not isinstance(d[k], ast.AST):
            return d[k]
        return _NOVAL
    if isinstance(e, ast.Call) and isinstance(e.func, ast.Name) and e.func.id == "float" and len(e.args) == 1 and not e.keywords and "float" not in env:
        # the builtin on a representative: numbers convert, None / containers raise TypeError, the representative
        # (non-numeric) string raises ValueError
        v = value_of(e.args[0], env)
        if v is _NOVAL:
            return _NOVAL
        if isinstance(v, (bool, int, float)):
            return float(v)
        return _RAISES
    # arithmetic on representatives (constant folding): + - * / // % **, int / float / abs / len / math.floor / ceil / log10
    if isinstance(e, ast.BinOp) and isinstance(e.op, (ast.LShift, ast.RShift, ast.BitAnd, ast.BitOr, ast.BitXor)):
        l, r = value_of(e.left, env), value_of(e.right, env)
        if isinstance(l, int) and isinstance(r, int) and not isinstance(l, bool) and not isinstance(r, bool) and (not isinstance(e.op, ast.LShift) or 0 <= r <= 4096):
            import operator as _op

            return {ast.LShift: _op.lshift, ast.RShift: _op.rshift, ast.BitAnd: _op.and_, ast.BitOr: _op.or_, ast.BitXor: _op.xor}[type(e.op)](l, r) if r >= 0 or not isinstance(e.op, (ast.LShift, ast.RShift)) else _NOVAL
        return _NOVAL
    if isinstance(e, ast.Call) and not e.keywords and isinstance(e.func, ast.Attribute) and e.func.attr == "encode" and len(e.args) <= 1 and all(isinstance(x, ast.Constant) and isinstance(x.value, str) for x in e.args):
        v = value_of(e.func.value, env)
        if isinstance(v, str):
            try:
                return v.encode(*[x.value for x in e.args])
            except (UnicodeError, LookupError):
                return _RAISES
        return _NOVAL
    if isinstance(e, ast.Call) and not e.keywords and not e.args and isinstance(e.func, ast.Attribute) and e.func.attr == "bit_length":
        v = value_of(e.func.value, env)
        return v.bit_length() if isinstance(v, int) else _NOVAL
    if isinstance(e, ast.Call) and not e.keywords and len(e.args) == 1 and isinstance(e.func, ast.Name) and e.func.id == "str" and "str" not in env:
        v = value_of(e.args[0], env)
        return str(v) if isinstance(v, (int, str)) and not isinstance(v, bool) else _NOVAL
    if isinstance(e, ast.BinOp) and isinstance(e.op, (ast.Add, ast.Sub, ast.Mult, ast.Div, ast.FloorDiv, ast.Mod, ast.Pow)):
        l, r = value_of(e.left, env), value_of(e.right, env)
        num = lambda v: isinstance(v, (int, float)) and not isinstance(v, bool)
        if num(l) and num(r):
            import operator as _op

            fn = {ast.Add: _op.add, ast.Sub: _op.sub, ast.Mult: _op.mul, ast.Div: _op.truediv, ast.FloorDiv: _op.floordiv, ast.Mod: _op.mod, ast.Pow: _op.pow}[type(e.op)]
            try:
                if isinstance(e.op, ast.Pow) and (abs(r) > 64 or abs(l) > 10 ** 6):
                    return _NOVAL
                return fn(l, r)
            except (ZeroDivisionError, OverflowError, ValueError):
                return _NOVAL
        return _NOVAL
    if isinstance(e, ast.Call) and not e.keywords and len(e.args) == 1 and ast.unparse(e.func) in ("int", "abs", "len", "math.floor", "math.ceil", "math.log10") and ast.unparse(e.func).split(".")[0] not in env:
        v = value_of(e.args[0], env)
        fn = ast.unparse(e.func)
        try:
            if fn == "len" and isinstance(v, (list, dict, str, bytes)):
                return len(v)
            if isinstance(v, (int, float)) and not isinstance(v, bool):
                import math as _m

                return {"int": int, "abs": abs, "math.floor": _m.floor, "math.ceil": _m.ceil, "math.log10": _m.log10}[fn](v) if fn != "len" else _NOVAL
        except (ValueError, OverflowError):
            return _NOVAL
        if fn == "int" and v is not _NOVAL and not isinstance(v, (int, float)):
            return _RAISES
        return _NOVAL
    if isinstance(e, ast.Call) and isinstance(e.func, ast.Name) and HOOK.get("value") is not None and e.func.id not in env:
        return HOOK["value"](e, env)
    if isinstance(e, ast.Dict) and all(k is not None for k in e.keys):
        # a table display: only its keys matter for membership tests
        ks = [value_of(k, env) for k in e.keys]
        if any(k is _NOVAL or isinstance(k, list) for k in ks):
            return _NOVAL
        return {k: v for k, v in zip(ks, e.values)}
    return _NOVAL


def _table_entry(e, env):
    """the value expression of `{...}[key]` when the key is known"""
    if isinstance(e, ast.Subscript) and isinstance(e.value, ast.Dict):
        k = value_of(e.slice, env)
        tbl = value_of(e.value, env)
        if k is not _NOVAL and isinstance(tbl, dict) and not isinstance(k, list) and k in tbl:
            return tbl[k]
    return None


def _cmp(a, op, b):
    if isinstance(op, (ast.In, ast.NotIn)) and isinstance(b, (list, dict, set, tuple, str)) and len(b) == 0 and not isinstance(b, str):
        return isinstance(op, ast.NotIn)  # nothing is a member of an empty container
    if a is _NOVAL or b is _NOVAL:
        return UNKNOWN
    try:
        if isinstance(op, ast.Eq):
            return a == b
        if isinstance(op, ast.NotEq):
            return a != b
        if isinstance(op, ast.In):
            return a in b
        if isinstance(op, ast.NotIn):
            return a not in b
        if isinstance(op, ast.Is):
            return a is b
        if isinstance(op, ast.IsNot):
            return a is not b
        if isinstance(op, ast.Lt):
            return a < b
        if isinstance(op, ast.LtE):
            return a <= b
        if isinstance(op, ast.Gt):
            return a > b
        if isinstance(op, ast.GtE):
            return a >= b
    except TypeError:
        return UNKNOWN
    return UNKNOWN


def _apply_kept(expr, env):
    """`f(x)` where f is bound to a function kept as syntax: float -> float(x); methodcaller('m') -> x.m();
    lambda p: body -> body[p := x]"""
    import copy

    if isinstance(expr, ast.Call) and isinstance(expr.func, ast.Name) and isinstance(env.get(expr.func.id), _Ast) and len(expr.args) == 1 and not expr.keywords:
        fn = env[expr.func.id].node
        arg = expr.args[0]
        if isinstance(fn, ast.Name):
            return ast.copy_location(ast.Call(func=fn, args=[arg], keywords=[]), expr)
        if isinstance(fn, ast.Call) and ast.unparse(fn.func) in ("partial", "functools.partial") and fn.args:
            return ast.copy_location(ast.Call(func=fn.args[0], args=list(fn.args[1:]) + [arg], keywords=list(fn.keywords)), expr)
        if isinstance(fn, ast.Call) and ast.unparse(fn.func) in ("methodcaller", "operator.methodcaller") and fn.args and isinstance(fn.args[0], ast.Constant) and isinstance(fn.args[0].value, str):
            return ast.copy_location(ast.Call(func=ast.Attribute(value=arg, attr=fn.args[0].value, ctx=ast.Load()), args=list(fn.args[1:]), keywords=list(fn.keywords)), expr)
        if isinstance(fn, ast.Lambda) and len(fn.args.args) == 1 and not fn.args.defaults:
            pname = fn.args.args[0].arg

            class S(ast.NodeTransformer):
                def visit_Name(self, n):
                    return copy.deepcopy(arg) if n.id == pname else n

            return S().visit(copy.deepcopy(fn.body))
    return expr


LAST = {"env": {}}  # environment at the last undecidable test (for diagnostics and argument inspection)


def run_chain(stmts, env, atoms=None, depth=0, effects=None):
    """Interpret the control skeleton: returns ('return', expr) | ('raise', node) | ('fall', None) | ('unknown', node).
    With `effects` (a list), statements that decide nothing (calls in statement position, loops without an exit,
    stores into containers / attributes) are appended to it and skipped instead of ending the evaluation."""
    if depth == 0:
        env = dict(env)  # nested blocks of a decided branch bind into the same environment
    for s in stmts:
        if isinstance(s, ast.Expr) and isinstance(s.value, ast.Constant):
            continue
        if isinstance(s, ast.Pass):
            continue
        if effects is not None:
            if isinstance(s, ast.Expr) or (isinstance(s, (ast.For, ast.While)) and not any(isinstance(x, (ast.Return, ast.Raise, ast.Break)) for x in ast.walk(s))) or (isinstance(s, (ast.Assign, ast.AugAssign)) and all(isinstance(t, (ast.Subscript, ast.Attribute)) for t in (s.targets if isinstance(s, ast.Assign) else [s.target]))):
                effects.append(s)
                continue
        if isinstance(s, ast.If):
            v = eval_bool(s.test, env, atoms)
            if v is UNKNOWN:
                LAST["env"] = dict(env)
                return ("unknown", s.test)
            r = run_chain(s.body if v else s.orelse, env, atoms, depth + 1, effects)
            if r[0] != "fall":
                return r
            continue
        if isinstance(s, ast.Return):
            LAST["ret_env"] = dict(env)
            return ("return", _apply_kept(s.value, env))
        if isinstance(s, ast.Assign) and len(s.targets) == 1 and isinstance(s.targets[0], ast.Tuple) and all(isinstance(t, ast.Name) for t in s.targets[0].elts):
            v = value_of(s.value, env)
            if isinstance(v, list) and len(v) == len(s.targets[0].elts):
                for t, x in zip(s.targets[0].elts, v):
                    env[t.id] = x
                continue
            if v is _NOVAL:
                # the value is not modelled: the targets are simply unknown from here on
                for t in s.targets[0].elts:
                    env.pop(t.id, None)
                continue
            return ("unknown", s)
        if isinstance(s, ast.For) and not s.orelse:
            rows = value_of(s.iter, env)
            if isinstance(rows, list):
                done = None
                for row in rows:
                    if isinstance(s.target, ast.Name):
                        env[s.target.id] = row
                    elif isinstance(s.target, ast.Tuple) and isinstance(row, list) and len(row) == len(s.target.elts) and all(isinstance(t, ast.Name) for t in s.target.elts):
                        for t, x in zip(s.target.elts, row):
                            env[t.id] = x
                    else:
                        return ("unknown", s)
                    r = run_chain(s.body, env, atoms, depth + 1, effects)
                    if r[0] != "fall":
                        done = r
                        break
                if done is not None:
                    return done
                continue
            return ("unknown", s)
        if isinstance(s, ast.Raise):
            return ("raise", s)
        if isinstance(s, ast.Assign) and len(s.targets) == 1 and isinstance(s.targets[0], ast.Name):
            v = value_of(s.value, env)
            if v is _RAISES:
                return ("unknown", s)
            if v is _NOVAL:
                env.pop(s.targets[0].id, None)
            else:
                env[s.targets[0].id] = v
            continue
        if isinstance(s, ast.Try):
            # `try: T = <conversion>` whose conversion raises on this representative: the handler for it runs instead
            if len(s.body) == 1 and isinstance(s.body[0], (ast.Assign, ast.Return)) and s.body[0].value is not None and value_of(s.body[0].value, env) is _RAISES and not s.orelse and not s.finalbody:
                hs = [h for h in s.handlers if h.type is None or {ast.unparse(t) for t in (h.type.elts if isinstance(h.type, ast.Tuple) else [h.type])} >= {"TypeError", "ValueError"} or ast.unparse(h.type) in ("Exception", "BaseException")]
                if not hs or hs[0] is not s.handlers[0]:
                    return ("unknown", s)
                r = run_chain(hs[0].body, env, atoms, depth + 1, effects)
                if r[0] != "fall":
                    return r
                continue
            r = run_chain(s.body, env, atoms, depth + 1, effects)
            if r[0] != "fall":
                return r
            continue
        return ("unknown", s)
    return ("fall", None)
