"""Finite-domain evaluation of guard expressions (decision-table extraction).

An if/elif chain of comparisons against string literals is turned into a finite
relation by evaluating its *guards* on every element of a finite domain (the 8
primitive names; propositional atoms).  Only boolean guard expressions and the
control skeleton (if / return / raise / simple rebinding) are interpreted, by
this module's own three-valued evaluator on the syntax tree; anything outside
the evaluable fragment is Unknown (None), which can only make a rule less able
to report.  No repository code is executed.
"""
import ast

UNKNOWN = None


def eval_bool(e, env, atoms=None):
    """env: name -> python value (str/None/bool); atoms: normalised guard text -> bool"""
    atoms = atoms or {}
    txt = ast.unparse(e)
    if txt in atoms:
        return atoms[txt]
    if atoms and isinstance(e, (ast.Compare, ast.UnaryOp)):
        # an atom may be given in its negated spelling (`k not in d` for `k in d`)
        from .canon import negate
        import copy

        neg = ast.unparse(negate(copy.deepcopy(e)))
        if neg in atoms:
            return not atoms[neg]
    if isinstance(e, ast.BoolOp):
        vals = [eval_bool(v, env, atoms) for v in e.values]
        if isinstance(e.op, ast.And):
            if any(v is False for v in vals):
                return False
            return True if all(v is True for v in vals) else UNKNOWN
        if any(v is True for v in vals):
            return True
        return False if all(v is False for v in vals) else UNKNOWN
    if isinstance(e, ast.UnaryOp) and isinstance(e.op, ast.Not):
        v = eval_bool(e.operand, env, atoms)
        return UNKNOWN if v is UNKNOWN else (not v)
    if isinstance(e, ast.Compare):
        left = value_of(e.left, env)
        res = True
        for op, c in zip(e.ops, e.comparators):
            right = value_of(c, env)
            r = _cmp(left, op, right)
            if r is False:
                return False
            if r is UNKNOWN:
                res = UNKNOWN
            left = right
        return res
    if isinstance(e, ast.Call) and isinstance(e.func, ast.Name) and e.func.id == "isinstance" and len(e.args) == 2:
        v = value_of(e.args[0], env)
        if v is _NOVAL:
            return UNKNOWN
        targ = _table_entry(e.args[1], env) or e.args[1]
        tnames = [ast.unparse(t) for t in (targ.elts if isinstance(targ, ast.Tuple) else [targ])]
        known = {"list": list, "dict": dict, "str": str, "tuple": tuple, "int": int, "bool": bool, "float": float, "bytes": bytes}
        if all(t in known for t in tnames):
            return isinstance(v, tuple(known[t] for t in tnames))
        return UNKNOWN
    if isinstance(e, ast.Name):
        v = value_of(e, env)
        return UNKNOWN if v is _NOVAL else bool(v)
    if isinstance(e, ast.Constant):
        return bool(e.value)
    return UNKNOWN


class _NoVal:
    pass


_NOVAL = _NoVal()


def value_of(e, env):
    if isinstance(e, ast.Constant):
        return e.value
    if isinstance(e, ast.UnaryOp) and isinstance(e.op, ast.USub) and isinstance(e.operand, ast.Constant) and isinstance(e.operand.value, (int, float)):
        return -e.operand.value
    if isinstance(e, ast.Name):
        return env.get(e.id, _NOVAL)
    if isinstance(e, (ast.List, ast.Tuple, ast.Set)):
        vals = [value_of(x, env) for x in e.elts]
        if any(v is _NOVAL for v in vals):
            return _NOVAL
        return vals
    if isinstance(e, ast.Dict) and all(k is not None for k in e.keys):
        # a table display: only its keys matter for membership tests
        ks = [value_of(k, env) for k in e.keys]
        if any(k is _NOVAL or isinstance(k, list) for k in ks):
            return _NOVAL
        return {k: v for k, v in zip(ks, e.values)}
    return _NOVAL


def _table_entry(e, env):
    """the value expression of `{...}[key]` when the key is known"""
    if isinstance(e, ast.Subscript) and isinstance(e.value, ast.Dict):
        k = value_of(e.slice, env)
        tbl = value_of(e.value, env)
        if k is not _NOVAL and isinstance(tbl, dict) and not isinstance(k, list) and k in tbl:
            return tbl[k]
    return None


def _cmp(a, op, b):
    if a is _NOVAL or b is _NOVAL:
        return UNKNOWN
    try:
        if isinstance(op, ast.Eq):
            return a == b
        if isinstance(op, ast.NotEq):
            return a != b
        if isinstance(op, ast.In):
            return a in b
        if isinstance(op, ast.NotIn):
            return a not in b
        if isinstance(op, ast.Is):
            return a is b
        if isinstance(op, ast.IsNot):
            return a is not b
        if isinstance(op, ast.Lt):
            return a < b
        if isinstance(op, ast.LtE):
            return a <= b
        if isinstance(op, ast.Gt):
            return a > b
        if isinstance(op, ast.GtE):
            return a >= b
    except TypeError:
        return UNKNOWN
    return UNKNOWN


def run_chain(stmts, env, atoms=None, depth=0):
    """Interpret the control skeleton: returns ('return', expr) | ('raise', node) | ('fall', None) | ('unknown', node)"""
    env = dict(env)
    for s in stmts:
        if isinstance(s, ast.Expr) and isinstance(s.value, ast.Constant):
            continue
        if isinstance(s, ast.If):
            v = eval_bool(s.test, env, atoms)
            if v is UNKNOWN:
                return ("unknown", s.test)
            r = run_chain(s.body if v else s.orelse, env, atoms, depth + 1)
            if r[0] != "fall":
                return r
            continue
        if isinstance(s, ast.Return):
            return ("return", s.value)
        if isinstance(s, ast.Raise):
            return ("raise", s)
        if isinstance(s, ast.Assign) and len(s.targets) == 1 and isinstance(s.targets[0], ast.Name):
            v = value_of(s.value, env)
            if v is _NOVAL:
                env.pop(s.targets[0].id, None)
            else:
                env[s.targets[0].id] = v
            continue
        if isinstance(s, ast.Try):
            r = run_chain(s.body, env, atoms, depth + 1)
            if r[0] != "fall":
                return r
            continue
        return ("unknown", s)
    return ("fall", None)
