"""Dispatch tables: module-level dict literals whose values resolve to functions,
plus later module-level ``T["k"] = f`` stores (incl. those under
try/except ImportError/else: the static view is the union over build
configurations)."""
import ast

from .loader import AnalysisError, norm


class Table:
    def __init__(self, mod, name):
        self.mod = mod
        self.name = name
        self.entries = {}  # key -> [FuncInfo | ('stub', factory FuncInfo, call) | ('expr', node)]
        self.literal_keys = []
        self.conditional_keys = []

    def keys(self):
        return set(self.entries)

    def funcs(self, key):
        return _Funcs([v for v in self.entries.get(key, []) if hasattr(v, "qualname")], getattr(self, "name", "dispatch table"), key)

    def real_funcs(self, key):
        """entries that are functions, not 'raises unconditionally' stubs"""
        return self.funcs(key)

    def stubs(self, key):
        return [v for v in self.entries.get(key, []) if isinstance(v, tuple) and v[0] == "stub"]

    def all_funcs(self):
        out = []
        for k in self.entries:
            for f in self.funcs(k):
                if f not in out:
                    out.append(f)
        return out


def raises_unconditionally(finfo):
    """A factory whose nested function body is a single `raise`."""
    body = [s for s in finfo.node.body if not (isinstance(s, ast.Expr) and isinstance(s.value, ast.Constant))]
    return len(body) == 1 and isinstance(body[0], ast.Raise)


def load_table(program, mod, name, required=True):
    r = program.resolve(mod, name)
    if r is None or r[0] != "value" or not isinstance(r[2], ast.Dict):
        if required:
            raise AnalysisError(f"dispatch table {mod.short}.{name} not found as a dict literal")
        return None
    tmod, lit = r[1], r[2]
    t = Table(tmod, name)
    for k, v in zip(lit.keys, lit.values):
        if not isinstance(k, ast.Constant) or not isinstance(k.value, str):
            raise AnalysisError(f"table {name}: non-constant key {norm(k) if k else '**'}")
        t.literal_keys.append(k.value)
        t.entries.setdefault(k.value, []).append(_resolve_value(program, tmod, v))
    # the literal's own name in its defining module
    lit_name = None
    for n, vals in tmod.assigns.items():
        if any(v is lit for v in vals):
            lit_name = n
    for (tname, key, value, stmt, ctx) in tmod.table_stores:
        if tname != lit_name:
            continue
        if not isinstance(key, ast.Constant):
            raise AnalysisError(f"table {name}: non-constant store key {norm(key)}")
        if key.value not in t.conditional_keys:
            t.conditional_keys.append(key.value)
        t.entries.setdefault(key.value, []).append(_resolve_value(program, tmod, value))
    return t


def _resolve_value(program, mod, v):
    if isinstance(v, (ast.Name, ast.Attribute)):
        f = program.resolve_func(mod, v)
        if f is not None:
            return f
    if isinstance(v, ast.Call):
        f = program.resolve_func(mod, v.func)
        if f is not None:
            # factory returning a nested function
            for subs in f.nested.values():
                for sub in subs:
                    if raises_unconditionally(sub):
                        return ("stub", f, v)
            return ("factory", f, v)
    return ("expr", v)


class _Funcs(list):
    """the functions registered under one key; asking for one that is not there is an analysis error (the anchor is
    gone), never a crash"""

    def __init__(self, items, table, key):
        super().__init__(items)
        self._table, self._key = table, key

    def __getitem__(self, i):
        try:
            return super().__getitem__(i)
        except IndexError:
            from .loader import AnalysisError

            raise AnalysisError(f"{self._table}: no function registered for '{self._key}' (the table is built in a way this analysis does not follow)")

