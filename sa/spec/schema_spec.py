"""Frozen oracle: Avro 1.11 specification - names, defaults, canonical form, fingerprints."""

# A.4 default JSON kinds: schema kind -> Python types json.loads yields for a valid default
DEFAULT_KINDS = {
    "null": "NoneType",
    "boolean": "bool",
    "int": "int",
    "long": "int",
    "float": "float|int",
    "double": "float|int",
    "bytes": "str",
    "string": "str",
    "fixed": "str",
    "enum": "str",
    "array": "list",
    "map": "dict",
    "record": "dict",
    "error": "dict",
}

# A.5 Parsing Canonical Form: the only attributes kept, in this order
CANONICAL_ORDER = ["name", "type", "fields", "symbols", "items", "values", "size"]

# A.8
NAME_REGEX = "[A-Za-z_][A-Za-z0-9_]*"
RABIN_EMPTY = 0xC15D213AA4D7A795
JAVA_NAMES = {"SHA-256": "sha256", "MD5": "md5"}
RABIN_NAME = "CRC-64-AVRO"

NAMED_KINDS = ["enum", "fixed", "record"]
COMPLEX_KINDS = {"array", "map", "enum", "fixed", "record", "error"}
