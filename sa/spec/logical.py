"""Frozen oracle: Avro 1.11 logical types - base types and the domains the
stdlib-based logical readers of fastavro accept (A.6 of DESIGN.md)."""
import datetime

D = datetime.date(1970, 1, 1).toordinal()
BASE = {
    "date": "int",
    "time-millis": "int",
    "time-micros": "long",
    "timestamp-millis": "long",
    "timestamp-micros": "long",
    "local-timestamp-millis": "long",
    "local-timestamp-micros": "long",
    "uuid": "string",
    "decimal": ("bytes", "fixed"),
}
INT = (-(1 << 31), (1 << 31) - 1)
LONG = (-(1 << 63), (1 << 63) - 1)
_EPOCH = datetime.datetime(1970, 1, 1)
_MAX_US = int((datetime.datetime.max - _EPOCH) / datetime.timedelta(microseconds=1))
_MIN_US = -int((_EPOCH - datetime.datetime.min) / datetime.timedelta(microseconds=1))
# inclusive domains of the stored integer for which the logical reader returns a value
DOMAIN = {
    "int-date": (1 - D, datetime.date.max.toordinal() - D),
    "int-time-millis": (0, 86_400_000 - 1),
    "long-time-micros": (0, 86_400_000_000 - 1),
    "long-timestamp-millis": (_MIN_US // 1000 + 1, _MAX_US // 1000),
    "long-local-timestamp-millis": (_MIN_US // 1000 + 1, _MAX_US // 1000),
    "long-timestamp-micros": (_MIN_US, _MAX_US),
    "long-local-timestamp-micros": (_MIN_US, _MAX_US),
}
# logical types whose reader restricts the stored domain (a generator must special-case them)
RESTRICTED = set(DOMAIN) | {"string-uuid"}
