"""Frozen oracle: Avro 1.11 specification, "Binary Encoding" and "Object
Container Files", as shape terms in the canonical rendering of sa/shapes.py.

These are data transcribed from the specification (not derived from fastavro):
what an encoder may emit and what a decoder must accept, per schema kind.

Canonical names: C = codec object, X = datum, S = (writer) schema, N = named
schemas, RS = reader schema, O = options; n1.. = token results in order of
appearance; $1.. = loop-carried / state variables in order of appearance.
"""

# kind -> consumption shape (keep_src=False) shared by writer, reader and skipper
# for the kinds whose encoding is a fixed token sequence
STRAIGHT = {
    "null": "",
    "boolean": "P(B)",
    "int": "V",
    "long": "V",
    "float": "P(<f)",
    "double": "P(<d)",
    "enum": "V",
}
# length-prefixed: varint byte count then that many raw bytes
PREFIXED_W = "V R"  # writer: V(len(b)) R(b), provenance checked separately
PREFIXED_R = "V R[n1]"  # reader: count read is exactly the value of the varint
FIXED_W = "R"
FIXED_R = "R[S['size']]"
UNION_W = "V D(S[$1])"  # index then the branch's term, same index
UNION_R = "V D(S[n1])"
RECORD = "for[S['fields']]{D(each(S['fields'])['type'])}"

# array / map, writer instance: V(0) alone, or V(n>0) item^n V(0)
# (guard normalised to nonempty(X) by rules/common.norm_guard)
ARRAY_W = "if nonempty(X){V(len(X)) for[X]{D(S['items'])}} V(0)"
MAP_W = "if nonempty(X){V(len(X)) for[X.items()]{V(len(K.encode())) R(K.encode()) D(S['values'])}} V(0)"
# reader: ( V(n!=0) [V(bytesize) if n<0] item^|n| )* V(0)
BLOCKS_R = "V $1:=n1 while($1 != 0){if($1 < 0){$1:=-$1 V} for[range($1)]{ITEM} V $1:=nL}"
ARRAY_ITEM_R = "D(S['items'])"
MAP_ITEM_R = "V R[nK] D(S['values'])"

KINDS_WRITER = ["null", "boolean", "int", "long", "float", "double", "bytes", "string", "fixed", "enum", "array", "map", "union", "record"]
# aliases the tables may carry for the same encoding
KIND_ALIAS = {"error": "record", "request": "record", "error_union": "union"}

# struct formats per fixed-width kind: (normalised format, byte count)
FIXED_WIDTH = {"boolean": ("B", 1), "float": ("<f", 4), "double": ("<d", 8)}

# Object container file
MAGIC = b"Obj\x01"
SYNC_SIZE = 16
HEADER_SCHEMA = {
    "type": "record",
    "name": "org.apache.avro.file.Header",
    "fields": [
        {"name": "magic", "type": {"type": "fixed", "name": "magic", "size": 4}},
        {"name": "meta", "type": {"type": "map", "values": "bytes"}},
        {"name": "sync", "type": {"type": "fixed", "name": "sync", "size": 16}},
    ],
}
CODEC_KEY = "avro.codec"
SCHEMA_KEY = "avro.schema"
DEFAULT_CODEC = "null"
REQUIRED_CODECS = {"null", "deflate"}
OPTIONAL_CODECS = {"bzip2", "snappy", "xz", "zstandard", "lz4"}

# Inverse codec pairs (stdlib / third-party facts): writer compress call -> reader decompress call
CODEC_PAIRS = {
    "null": (None, None),
    "deflate": ("zlib.compress(..)[2:-1]", "zlib.decompressobj(-15).decompress"),
    "bzip2": ("bz2.compress", "bz2.decompress"),
    "xz": ("lzma.compress", "lzma.decompress"),
    "snappy": ("snappy_compress", "snappy_decompress"),
    "zstandard": ("zstandard.ZstdCompressor(..).compress", "zstandard.ZstdDecompressor().decompressobj().decompress"),
    "lz4": ("lz4.block.compress", "lz4.block.decompress"),
}
