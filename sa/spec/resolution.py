"""Frozen oracle: Avro 1.11 specification, "Schema Resolution"."""

PRIMITIVES = ["null", "boolean", "int", "long", "float", "double", "bytes", "string"]

# writer -> readers it may be promoted to (besides itself)
PROMOTIONS = {
    "int": {"long", "float", "double"},
    "long": {"float", "double"},
    "float": {"double"},
    "string": {"bytes"},
    "bytes": {"string"},
}


def matches(w, r):
    return w == r or r in PROMOTIONS.get(w, set())


# pairs whose Python representation differs and therefore need a conversion of the decoded value
CONVERSIONS = {
    ("int", "float"): "float",
    ("int", "double"): "float",
    ("long", "float"): "float",
    ("long", "double"): "float",
    ("string", "bytes"): "encode",
    ("bytes", "string"): "decode",
}
