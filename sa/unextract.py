"""Undo "extract constant" and "extract variable" for names the reference inventory does not know.

  * A private module-level name that the reference module does not bind, bound once to a literal
    (constants, tuples of them; lists / sets / dicts only when every use is a membership test), is replaced
    by the literal where it is read.
  * In a function the reference knows, a local the reference function does not have, assigned exactly once
    from a pure expression whose inputs are not rebound, is replaced by that expression where it is read
    (a display that creates a mutable object only when no two reads lie on one path).
Both are semantics-preserving for the accepted forms and exist so that the rules read the code in the
spelling they were confirmed on.  Nothing is decided here.
"""
import ast
import copy

from .refnorm import functions_of, local_names, load_inventory, _all_args

_PURE_CALLS = {"len", "isinstance", "int", "str", "float", "bool", "tuple", "frozenset", "type", "abs", "min", "max", "repr"}
_PURE_METHODS = {"get", "keys", "values", "items", "startswith", "endswith", "lower", "upper", "split", "rsplit", "join", "format", "encode", "decode", "strip", "lstrip", "rstrip", "replace", "hex"}


def _immutable_literal(e):
    if isinstance(e, ast.Constant):
        return True
    if isinstance(e, ast.UnaryOp) and isinstance(e.op, ast.USub):
        return _immutable_literal(e.operand)
    if isinstance(e, ast.Tuple):
        return all(_immutable_literal(x) for x in e.elts)
    # operator.methodcaller('m') / itemgetter(k) / attrgetter('a') on constants: an immutable callable
    if isinstance(e, ast.Call) and ast.unparse(e.func).split(".")[-1] in ("methodcaller", "itemgetter", "attrgetter") and not e.keywords and e.args and all(isinstance(a, ast.Constant) for a in e.args):
        return True
    # a function of the math module on constants (`math.log10(2)`): a number fixed at import time
    if isinstance(e, ast.Call) and isinstance(e.func, ast.Attribute) and isinstance(e.func.value, ast.Name) and e.func.value.id == "math" and not e.keywords and e.args and all(isinstance(a, ast.Constant) and isinstance(a.value, (int, float)) and not isinstance(a.value, bool) for a in e.args):
        return True
    if isinstance(e, ast.BinOp) and isinstance(e.op, (ast.Add, ast.Sub, ast.Mult, ast.Div, ast.FloorDiv, ast.Pow, ast.LShift)) and _immutable_literal(e.left) and _immutable_literal(e.right) and not any(isinstance(x, ast.Constant) and isinstance(x.value, (str, bytes)) for x in (e.left, e.right)):
        return True
    if isinstance(e, ast.Call) and isinstance(e.func, ast.Name) and e.func.id == "frozenset" and len(e.args) == 1 and not e.keywords:
        return _literal(e.args[0])
    # a bound method of a compiled struct format (`Struct('<f').pack`)
    if isinstance(e, ast.Attribute) and e.attr in ("pack", "unpack", "unpack_from", "pack_into", "size") and isinstance(e.value, ast.Call) and _immutable_literal(e.value) and not isinstance(e.value.func, ast.Name) is False and ((isinstance(e.value.func, ast.Name) and e.value.func.id == "Struct") or (isinstance(e.value.func, ast.Attribute) and e.value.func.attr == "Struct")):
        return True
    # a compiled struct format: an immutable value determined by its format string
    if isinstance(e, ast.Call) and ((isinstance(e.func, ast.Name) and e.func.id == "Struct") or (isinstance(e.func, ast.Attribute) and e.func.attr == "Struct" and isinstance(e.func.value, ast.Name) and e.func.value.id == "struct")) and len(e.args) == 1 and not e.keywords and isinstance(e.args[0], ast.Constant):
        return True
    return False


def _literal(e, names=()):
    """literal display; `names` = module-level names (classes, functions, imports) that may appear as leaves"""
    if _immutable_literal(e):
        return True
    if isinstance(e, ast.Name) and e.id in names:
        return True
    # an attribute of a stable module-level name (`array.array`, `numbers.Integral`): a class or function of a module
    if isinstance(e, ast.Attribute) and isinstance(e.ctx, ast.Load):
        b = e
        while isinstance(b, ast.Attribute):
            b = b.value
        if isinstance(b, ast.Name) and b.id in names:
            return True
    # a closed lambda: its body only reads its own parameters, builtins and stable module-level names
    if isinstance(e, ast.Lambda) and not e.args.vararg and not e.args.kwarg and not e.args.defaults and not e.args.kw_defaults:
        import builtins as _bb

        own = {a.arg for a in e.args.args + e.args.kwonlyargs}
        free = {x.id for x in ast.walk(e.body) if isinstance(x, ast.Name)} - own
        if all(n in names or hasattr(_bb, n) for n in free) and not any(isinstance(x, (ast.Lambda, ast.NamedExpr, ast.Yield, ast.Await)) for x in ast.walk(e.body)):
            return True
    # partial(f, <literals>): a function value fixed at import time
    if isinstance(e, ast.Call) and ((isinstance(e.func, ast.Name) and e.func.id == "partial") or (isinstance(e.func, ast.Attribute) and e.func.attr == "partial" and isinstance(e.func.value, ast.Name) and e.func.value.id == "functools")) and e.args and all(_literal(a, names) for a in e.args) and all(k.arg is not None and _literal(k.value, names) for k in e.keywords):
        return True
    if isinstance(e, (ast.List, ast.Set, ast.Tuple)):
        return all(_literal(x, names) for x in e.elts)
    if isinstance(e, ast.Dict):
        return all(k is not None and _literal(k) for k in e.keys) and all(_literal(v, names) for v in e.values)
    return False


def _parents(tree):
    pm = {}
    for n in ast.walk(tree):
        for c in ast.iter_child_nodes(n):
            pm[id(c)] = n
    return pm


def inline_constants(trees, report):
    inv = load_inventory()
    if inv is None:
        return
    from .refnorm import module_globals
    import builtins as _b

    ref_globals = inv.get("globals", {})
    consts = {}  # (rel, name) -> defining statement
    for rel, tree in trees.items():
        if rel not in ref_globals:
            continue
        known = set(ref_globals.get(rel, ()))
        bound = {}
        for st in tree.body:
            if isinstance(st, ast.Assign) and len(st.targets) == 1 and isinstance(st.targets[0], ast.Name):
                bound.setdefault(st.targets[0].id, []).append(st)
            elif isinstance(st, ast.AnnAssign) and isinstance(st.target, ast.Name) and st.value is not None:
                bound.setdefault(st.target.id, []).append(st)
            elif isinstance(st, ast.Assign) and len(st.targets) == 1 and isinstance(st.targets[0], ast.Tuple) and isinstance(st.value, ast.Tuple) and len(st.targets[0].elts) == len(st.value.elts) and all(isinstance(x, ast.Name) for x in st.targets[0].elts):
                # A, B = 'x', 1  at module level: two constants
                for tname, v in zip(st.targets[0].elts, st.value.elts):
                    bound.setdefault(tname.id, []).append(ast.copy_location(ast.Assign(targets=[tname], value=v), st))
        stable = {n for n in dir(_b) if not n.startswith("_")} - module_globals(tree)
        for st in tree.body:
            if isinstance(st, (ast.FunctionDef, ast.AsyncFunctionDef, ast.ClassDef)):
                stable.add(st.name)
            elif isinstance(st, (ast.Import, ast.ImportFrom)):
                for al in st.names:
                    stable.add((al.asname or al.name).split(".")[0])
        # module-level names bound exactly once (and never through `global`) are as stable as definitions
        once = {nm for nm, sts_ in bound.items() if len(sts_) == 1 and sum(1 for x in ast.walk(tree) if isinstance(x, ast.Name) and x.id == nm and isinstance(x.ctx, (ast.Store, ast.Del))) == 1 and not any(isinstance(x, ast.Global) and nm in x.names for x in ast.walk(tree))}
        stable = stable | once
        for name, sts in bound.items():
            if name in known or name.startswith("__") or name == "__all__" or len(sts) != 1 or not _literal(sts[0].value, stable - {name}):
                continue
            # never rebound elsewhere (global statement, augmented assignment, other stores at module level)
            stores = [n for n in ast.walk(tree) if isinstance(n, ast.Name) and n.id == name and isinstance(n.ctx, (ast.Store, ast.Del))]
            if len(stores) != 1 or any(isinstance(n, ast.Global) and name in n.names for n in ast.walk(tree)):
                continue
            consts[(rel, name)] = sts[0]
    if not consts:
        return
    modname = lambda rel: rel[:-3].replace("/", ".").rsplit(".__init__", 1)[0]
    by_mod_tail = {}
    for (rel, name) in consts:
        by_mod_tail.setdefault(name, []).append(rel)
    for rel, tree in trees.items():
        visible = {name: consts[(r, name)] for (r, name) in consts if r == rel}
        origin = {name: rel for name in visible}
        for st in ast.walk(tree):
            if isinstance(st, ast.ImportFrom) and st.module is not None or isinstance(st, ast.ImportFrom):
                for al in st.names:
                    if al.asname is None and al.name in by_mod_tail and al.name not in visible:
                        tail = (st.module or "").split(".")[-1]
                        cands = [r for r in by_mod_tail[al.name] if modname(r).split(".")[-1] == tail]
                        if len(cands) == 1:
                            visible[al.name] = consts[(cands[0], al.name)]
                            origin[al.name] = cands[0]
        # names that reached this module through an inlined helper of another module
        here = module_globals(tree)
        for name, rels in by_mod_tail.items():
            if name not in visible and name not in here and len(rels) == 1:
                visible[name] = consts[(rels[0], name)]
                origin[name] = rels[0]
        if not visible:
            continue
        pm = _parents(tree)
        shadow = {}
        for q, fnode, cls in functions_of(tree):
            loc = local_names(fnode)
            for n in ast.walk(fnode):
                shadow[id(n)] = loc
        for n in list(ast.walk(tree)):
            if isinstance(n, ast.Name) and isinstance(n.ctx, ast.Load) and n.id in visible and n.id not in shadow.get(id(n), ()):
                value = visible[n.id].value
                par = pm.get(id(n))
                if isinstance(value, ast.Tuple) and not any(isinstance(x, (ast.List, ast.Dict, ast.Set, ast.Call, ast.Lambda)) for x in ast.walk(value)):
                    pass  # a tuple of names / constants is immutable: any read may be the display itself
                elif not _immutable_literal(value):
                    membership = isinstance(par, ast.Compare) and len(par.ops) == 1 and isinstance(par.ops[0], (ast.In, ast.NotIn)) and par.comparators[0] is n
                    lookup = isinstance(par, ast.Subscript) and par.value is n and isinstance(par.ctx, ast.Load)
                    readonly = isinstance(par, ast.Attribute) and par.value is n and par.attr in ("items", "keys", "values", "get") and isinstance(pm.get(id(par)), ast.Call) and pm[id(par)].func is par
                    iterated = (isinstance(par, (ast.For, ast.comprehension)) and par.iter is n)
                    if not (membership or lookup or readonly or iterated):
                        continue
                elif isinstance(value, ast.Tuple) and not (isinstance(par, (ast.For, ast.comprehension)) and par.iter is n) and len(value.elts) > 8:
                    pass
                if origin[n.id] != rel:
                    missing = {x.id for x in ast.walk(value) if isinstance(x, ast.Name) and not ((hasattr(_b, x.id) and x.id not in here) or x.id in here)}
                    if missing:
                        # names of the defining module that this module does not see: import them next to the constant
                        # (same module, plain module-level names there), else leave the constant alone
                        imp = next((st for st in ast.walk(tree) if isinstance(st, ast.ImportFrom) and any(al.name == n.id and al.asname is None for al in st.names)), None)
                        if imp is None or not missing <= module_globals(trees[origin[n.id]]):
                            continue
                        imp.names = list(imp.names) + [ast.alias(name=m_, asname=None) for m_ in sorted(missing)]
                        here = here | missing
                new = copy.deepcopy(value)
                for x in ast.walk(new):
                    ast.copy_location(x, n)
                _replace(par, n, new)
                report.append(("inlined-constant", f"{rel}:{n.id}"))
    # drop definitions without remaining reads in their own module (and no importer left)
    for (rel, name), st in consts.items():
        reads = sum(1 for n in ast.walk(trees[rel]) if isinstance(n, ast.Name) and n.id == name and isinstance(n.ctx, ast.Load))
        imported = any(isinstance(s, ast.ImportFrom) and any(a.name == name for a in s.names) for r2, t in trees.items() if r2 != rel for s in ast.walk(t))
        if reads == 0 and not imported:
            trees[rel].body = [s for s in trees[rel].body if s is not st]


def inline_namespace_constants(trees, report):
    """a class the reference does not have whose body is only `NAME = <immutable literal>` lines (a namespace of named
    constants, plain or a `str` / `int`-mixin Enum) and that is only ever used as `<Class>.NAME` (or `.NAME.value`):
    every such read is the literal; the class goes when nothing else refers to it"""
    inv = load_inventory()
    if inv is None:
        return
    ref_globals = inv.get("globals", {})
    spaces = {}
    for rel, tree in trees.items():
        if rel not in ref_globals:
            continue
        known = set(ref_globals.get(rel, ()))
        for st in tree.body:
            if not isinstance(st, ast.ClassDef) or st.name in known or st.decorator_list or st.keywords:
                continue
            bases = [ast.unparse(b) for b in st.bases]
            enum = bool(bases) and bases[-1] in ("Enum", "enum.Enum") and all(b in ("str", "int") for b in bases[:-1]) and len(bases) == 2
            if bases and not enum and bases not in (["object"],):
                continue
            if bases and bases[-1] in ("StrEnum", "enum.StrEnum", "IntEnum", "enum.IntEnum"):
                continue
            consts, ok = {}, True
            for x in st.body:
                if isinstance(x, ast.Expr) and isinstance(x.value, ast.Constant):
                    continue
                if isinstance(x, ast.Pass):
                    continue
                if isinstance(x, ast.Assign) and len(x.targets) == 1 and isinstance(x.targets[0], ast.Name) and _immutable_literal(x.value) and not x.targets[0].id.startswith("__"):
                    consts[x.targets[0].id] = x.value
                    continue
                if isinstance(x, ast.AnnAssign) and isinstance(x.target, ast.Name) and x.value is not None and _immutable_literal(x.value):
                    consts[x.target.id] = x.value
                    continue
                ok = False
            if ok and consts:
                spaces[st.name] = (rel, st, consts, enum)
    if not spaces:
        return
    for cname, (crel, cnode, consts, enum) in spaces.items():
        # every reference to the class name in the package: <Class>.NAME loads only (and imports of the name)
        uses_ok = True
        sites = []
        for rel, tree in trees.items():
            pm = _parents(tree)
            for n in ast.walk(tree):
                if isinstance(n, ast.Name) and n.id == cname:
                    par = pm.get(id(n))
                    if isinstance(par, ast.Attribute) and par.value is n and isinstance(par.ctx, ast.Load) and par.attr in consts:
                        gp = pm.get(id(par))
                        if enum and isinstance(gp, ast.Attribute) and gp.value is par and gp.attr == "value":
                            sites.append((rel, pm.get(id(gp)), gp, consts[par.attr]))
                        elif enum and isinstance(gp, (ast.FormattedValue,)):
                            uses_ok = False
                        elif enum and isinstance(gp, ast.Call) and isinstance(gp.func, ast.Name) and gp.func.id in ("str", "repr", "format", "print"):
                            uses_ok = False
                        elif enum and isinstance(gp, ast.Compare) and any(isinstance(o, (ast.Is, ast.IsNot)) for o in gp.ops):
                            uses_ok = False
                        else:
                            sites.append((rel, gp, par, consts[par.attr]))
                    else:
                        uses_ok = False
                elif isinstance(n, ast.Attribute) and n.attr == cname:
                    uses_ok = False
        if not uses_ok or not sites:
            continue
        for rel, par, node, val in sites:
            new = copy.deepcopy(val)
            for x in ast.walk(new):
                ast.copy_location(x, node)
            _replace(par, node, new)
            report.append(("inlined-namespace-constant", f"{rel}:{cname}"))
        trees[crel].body = [s for s in trees[crel].body if s is not cnode]
        for rel, tree in trees.items():
            for n in list(ast.walk(tree)):
                if isinstance(n, ast.ImportFrom):
                    keep = [a for a in n.names if a.name != cname]
                    if keep and len(keep) != len(n.names):
                        n.names = keep


def inline_class_constants(trees, report):
    """a class-level `NAME = <literal display>` that the reference does not have, is stored nowhere else and is read
    only as `self.NAME` / `cls.NAME` / `<Class>.NAME` (membership, lookup, .get/.items/...): the reads become the
    display.  A leaf naming a function of the class body becomes `<Class>.<function>`."""
    inv = load_inventory()
    if inv is None:
        return
    import builtins as _b

    for rel, tree in trees.items():
        rmods = inv["modules"].get(rel)
        if rmods is None:
            continue
        known_attrs = set()
        for q, r in rmods.items():
            known_attrs |= set(r.get("attrs", ()))
        stable = {n for n in dir(_b) if not n.startswith("_")}
        for st in tree.body:
            if isinstance(st, (ast.FunctionDef, ast.AsyncFunctionDef, ast.ClassDef)):
                stable.add(st.name)
            elif isinstance(st, (ast.Import, ast.ImportFrom)):
                for al in st.names:
                    stable.add((al.asname or al.name).split(".")[0])
        for cnode in [s for s in tree.body if isinstance(s, ast.ClassDef)]:
            methods = {x.name for x in cnode.body if isinstance(x, (ast.FunctionDef, ast.AsyncFunctionDef))}
            ref_class_known = any(q.startswith(cnode.name + ".") for q in rmods)
            if not ref_class_known:
                continue
            for cst in list(cnode.body):
                if isinstance(cst, ast.AnnAssign) and isinstance(cst.target, ast.Name) and cst.value is not None:
                    name, value = cst.target.id, cst.value
                elif isinstance(cst, ast.Assign) and len(cst.targets) == 1 and isinstance(cst.targets[0], ast.Name):
                    name, value = cst.targets[0].id, cst.value
                else:
                    continue
                if name in known_attrs or name.startswith("__") or not _literal(value, stable | methods) or isinstance(value, ast.Constant):
                    continue
                # stored nowhere else, in any module
                if any(isinstance(n, ast.Attribute) and n.attr == name and isinstance(n.ctx, (ast.Store, ast.Del)) for t in trees.values() for n in ast.walk(t)):
                    continue
                if sum(1 for x in cnode.body for n in ([x] if isinstance(x, (ast.Assign, ast.AnnAssign)) else []) for t in (n.targets if isinstance(n, ast.Assign) else [n.target]) if isinstance(t, ast.Name) and t.id == name) != 1:
                    continue
                pm = _parents(tree)
                reads = [n for n in ast.walk(tree) if isinstance(n, ast.Attribute) and n.attr == name and isinstance(n.ctx, ast.Load)]
                def _defines_own(t):
                    return any(isinstance(c, ast.ClassDef) and any(isinstance(x, (ast.Assign, ast.AnnAssign)) and any(isinstance(tt, ast.Name) and tt.id == name for tt in (x.targets if isinstance(x, ast.Assign) else [x.target])) for x in c.body) for c in ast.walk(t))

                elsewhere = any(isinstance(n, ast.Attribute) and n.attr == name and not (isinstance(n.value, ast.Name) and n.value.id in ("self", "cls") and _defines_own(t)) for r2, t in trees.items() if r2 != rel for n in ast.walk(t))
                plain = [n for x in cnode.body if not isinstance(x, (ast.FunctionDef, ast.AsyncFunctionDef)) for n in ast.walk(x) if isinstance(n, ast.Name) and n.id == name and isinstance(n.ctx, ast.Load)]
                if elsewhere or plain or not reads:
                    continue
                ok = True
                for n in reads:
                    par = pm.get(id(n))
                    if not (isinstance(n.value, ast.Name) and n.value.id in ("self", "cls", cnode.name)):
                        ok = False
                    membership = isinstance(par, ast.Compare) and len(par.ops) == 1 and isinstance(par.ops[0], (ast.In, ast.NotIn)) and par.comparators[0] is n
                    lookup = isinstance(par, ast.Subscript) and par.value is n and isinstance(par.ctx, ast.Load)
                    readonly = isinstance(par, ast.Attribute) and par.value is n and par.attr in ("items", "keys", "values", "get") and isinstance(pm.get(id(par)), ast.Call) and pm[id(par)].func is par
                    iterated = isinstance(par, (ast.For, ast.comprehension)) and par.iter is n
                    if not (_immutable_literal(value) or membership or lookup or readonly or iterated):
                        ok = False
                if not ok:
                    continue
                for n in reads:
                    new = copy.deepcopy(value)

                    class Q(ast.NodeTransformer):
                        def visit_Name(self, x):
                            if x.id in methods and isinstance(x.ctx, ast.Load):
                                return ast.Attribute(value=ast.Name(id=cnode.name, ctx=ast.Load()), attr=x.id, ctx=ast.Load())
                            return x

                    new = Q().visit(new)
                    for x in ast.walk(new):
                        ast.copy_location(x, n)
                    _replace(pm[id(n)], n, new)
                cnode.body = [x for x in cnode.body if x is not cst] or [ast.copy_location(ast.Pass(), cst)]
                report.append(("inlined-class-constant", f"{rel}:{cnode.name}.{name}"))


def _replace(parent, old, new):
    for f, v in ast.iter_fields(parent):
        if v is old:
            setattr(parent, f, new)
            return True
        if isinstance(v, list):
            for i, x in enumerate(v):
                if x is old:
                    v[i] = new
                    return True
    return False


def _pure(e):
    if isinstance(e, (ast.Constant, ast.Name)):
        return True
    if isinstance(e, ast.Attribute):
        return _pure(e.value)
    if isinstance(e, ast.Subscript):
        return _pure(e.value) and _pure(e.slice)
    if isinstance(e, (ast.Tuple, ast.List, ast.Set)):
        return all(_pure(x) for x in e.elts)
    if isinstance(e, ast.Dict):
        return all(k is not None and _pure(k) for k in e.keys) and all(_pure(v) for v in e.values)
    if isinstance(e, ast.BinOp):
        return _pure(e.left) and _pure(e.right)
    if isinstance(e, ast.UnaryOp):
        return _pure(e.operand)
    if isinstance(e, ast.BoolOp):
        return all(_pure(v) for v in e.values)
    if isinstance(e, ast.Compare):
        return _pure(e.left) and all(_pure(c) for c in e.comparators)
    if isinstance(e, ast.IfExp):
        return _pure(e.test) and _pure(e.body) and _pure(e.orelse)
    if isinstance(e, ast.JoinedStr):
        return all(_pure(v) for v in e.values)
    if isinstance(e, ast.FormattedValue):
        return _pure(e.value)
    if isinstance(e, ast.Slice):
        return all(x is None or _pure(x) for x in (e.lower, e.upper, e.step))
    if isinstance(e, ast.Call) and not e.keywords and all(_pure(a) for a in e.args):
        if isinstance(e.func, ast.Name) and e.func.id in _PURE_CALLS:
            return True
        # a compiled struct format is an immutable value determined by its format string
        if ((isinstance(e.func, ast.Name) and e.func.id == "Struct") or (isinstance(e.func, ast.Attribute) and e.func.attr == "Struct" and isinstance(e.func.value, ast.Name) and e.func.value.id == "struct")) and len(e.args) == 1 and isinstance(e.args[0], ast.Constant):
            return True
        if isinstance(e.func, ast.Attribute) and e.func.attr in _PURE_METHODS and _pure(e.func.value):
            return True
    return False


def _mutable_display(e):
    """evaluating e creates a new mutable container that is (part of) its value"""
    if isinstance(e, (ast.List, ast.Dict, ast.Set, ast.ListComp, ast.DictComp, ast.SetComp)):
        return True
    if isinstance(e, ast.Tuple):
        return any(_mutable_display(x) for x in e.elts)
    if isinstance(e, ast.IfExp):
        return _mutable_display(e.body) or _mutable_display(e.orelse)
    if isinstance(e, ast.BoolOp):
        return any(_mutable_display(x) for x in e.values)
    return False


def _order(fnode):
    """pre-order index of every node (source / evaluation order for statements)"""
    idx = {}

    def go(n):
        idx[id(n)] = len(idx)
        for c in ast.iter_child_nodes(n):
            go(c)

    go(fnode)
    return idx


def unextract_variables(trees, report):
    inv = load_inventory()
    if inv is None:
        return
    ref = inv["modules"]
    for rel, tree in trees.items():
        rfns = ref.get(rel, {})
        for q, fnode, cls in functions_of(tree):
            r = rfns.get(q)
            if r is None:
                continue
            ref_locals = set(r["locals"]) | {x for c in r["comps"] for x in c}
            new = local_names(fnode) - ref_locals - {a.arg for a in _all_args(fnode)}
            if not new:
                continue
            for name in sorted(new):
                _try_unextract(fnode, name, rel, q, report)


def _block_of(pm, stmt):
    blk = pm.get(id(stmt))
    for f in ("body", "orelse", "finalbody"):
        lst = getattr(blk, f, None)
        if isinstance(lst, list) and any(x is stmt for x in lst):
            return blk, f, lst
    return None, None, None


def _try_unextract(fnode, name, rel, q, report):
    """every store of `name` is `name = <pure>` in some block and the reads of `name` are exactly the reads that
    follow those stores inside their blocks: each read is replaced by the value of the store that covers it"""
    pm = _parents(fnode)
    stores = [n for n in ast.walk(fnode) if isinstance(n, ast.Name) and n.id == name and isinstance(n.ctx, (ast.Store, ast.Del))]
    reads = [n for n in ast.walk(fnode) if isinstance(n, ast.Name) and n.id == name and isinstance(n.ctx, ast.Load)]
    if not stores or not reads:
        return
    plans = []
    covered = set()
    for st in stores:
        asg = pm.get(id(st))
        if not ((isinstance(asg, ast.Assign) and len(asg.targets) == 1 and asg.targets[0] is st) or (isinstance(asg, ast.AnnAssign) and asg.target is st and asg.value is not None)):
            return
        blk, field, lst = _block_of(pm, asg)
        if lst is None:
            return
        i = next(k for k, x in enumerate(lst) if x is asg)
        rest = lst[i + 1:]
        if not _pure(asg.value):
            if len(stores) == 1:
                _try_unextract_single_use(fnode, name, asg, pm, rel, q, report)
            return
        inside = [n for s_ in rest for n in ast.walk(s_)]
        if any(isinstance(n, ast.Name) and n.id == name and isinstance(n.ctx, (ast.Store, ast.Del)) for n in inside):
            return
        inputs = {n.id for n in ast.walk(asg.value) if isinstance(n, ast.Name)}
        if any((isinstance(n, ast.Name) and n.id in inputs and isinstance(n.ctx, (ast.Store, ast.Del))) or (isinstance(n, ast.arg) and n.arg in inputs) for n in inside):
            return
        # a loop around the block would carry the value to reads placed before the store
        mine = [n for n in inside if isinstance(n, ast.Name) and n.id == name and isinstance(n.ctx, ast.Load)]
        if _mutable_display(asg.value) and len(mine) > 1:
            for a_i, a_ in enumerate(mine):
                for b_ in mine[a_i + 1:]:
                    if not _exclusive(a_, b_, pm):
                        return
        plans.append((asg, lst, mine))
        covered |= {id(n) for n in mine}
    if covered != {id(n) for n in reads}:
        return
    for asg, lst, mine in plans:
        for rd in mine:
            new = copy.deepcopy(asg.value)
            for x in ast.walk(new):
                ast.copy_location(x, rd)
            _replace(pm[id(rd)], rd, new)
        lst.remove(asg)
        if not lst:
            lst.append(ast.copy_location(ast.Pass(), asg))
    report.append(("unextracted-variable", f"{rel}:{q}:{name}"))


def _exclusive(a, b, pm):
    """a and b lie in different arms of one if statement"""
    chain_a = []
    x = a
    while x is not None:
        chain_a.append(x)
        x = pm.get(id(x))
    ids = {id(n): i for i, n in enumerate(chain_a)}
    x, prev = b, None
    while x is not None and id(x) not in ids:
        prev = x
        x = pm.get(id(x))
    if x is None or not isinstance(x, ast.If) or prev is None:
        return False
    pa = chain_a[ids[id(x)] - 1] if ids[id(x)] > 0 else None
    if pa is None:
        return False
    in_body = lambda n: any(n is s for s in x.body)
    in_else = lambda n: any(n is s for s in x.orelse)
    return (in_body(pa) and in_else(prev)) or (in_else(pa) and in_body(prev))


def _try_unextract_single_use(fnode, name, asg, pm, rel, q, report):
    """`t = <expr with effects>` read exactly once, by the next statement, before anything else happens there"""
    from .inline import first_evaluated

    reads = [n for n in ast.walk(fnode) if isinstance(n, ast.Name) and n.id == name and isinstance(n.ctx, ast.Load)]
    if len(reads) != 1:
        return
    blk = pm.get(id(asg))
    for f in ("body", "orelse", "finalbody"):
        lst = getattr(blk, f, None)
        if isinstance(lst, list) and asg in lst:
            i = lst.index(asg)
            if i + 1 >= len(lst):
                return
            nxt = lst[i + 1]
            if not first_evaluated(nxt, name):
                return
            new = asg.value
            _replace(_parents(nxt)[id(reads[0])], reads[0], new)
            lst.remove(asg)
            report.append(("unextracted-variable", f"{rel}:{q}:{name}"))
            return
