#!/usr/bin/env python3
"""Apply a textual edit to one module in memory and run a property's rules on the variant.
usage: trymut.py PROP relpath 'old' 'new'   (old must occur exactly once)"""
import sys, os
sys.path.insert(0, os.path.dirname(os.path.dirname(os.path.abspath(__file__))))
from sa.loader import Program
from sa.run import run_property, repo_path
from sa import report

def run_variant(prop, relpath, old, new, base=None):
    base = base or Program.from_dir(repo_path())
    src = base.sources[relpath]
    if src.count(old) != 1:
        raise SystemExit(f"edit site occurs {src.count(old)} times in {relpath}")
    var = base.variant(relpath, src.replace(old, new))
    ctx, mod = run_property(prop, "quick", var)
    return ctx

if __name__ == "__main__":
    prop, relpath, old, new = sys.argv[1:5]
    ctx = run_variant(prop, relpath, old.encode().decode('unicode_escape'), new.encode().decode('unicode_escape'))
    v = ctx.violations()
    u = [o for o in ctx.obligations if o["verdict"] == "UNRECOGNISED"]
    for o in v: print("VIOLATION", o["rule"], o["where"], "::", o["construct"][:150], "::", o["detail"][:200])
    for o in u: print("UNRECOGNISED", o["rule"], o["where"], o["detail"][:200])
    print(f"{len(v)} violations, {len(u)} unrecognised, {len(ctx.obligations)} obligations")
