#!/usr/bin/env python3
"""Run every implemented property check against seeded mutants.

usage: seeded.py [DIR ...]      each DIR holds patch.diff (+ meta.json); default: /verif/seeded/*/
For each mutant a scratch copy of /repo/fastavro is made under $TMPDIR (outside
/repo and /verif), the patch applied there, all rule modules run in-process on
the copy, and the copy removed.  Prints, per mutant, which rules fire.
"""
import glob
import json
import os
import shutil
import subprocess
import sys
import tempfile

HERE = os.path.dirname(os.path.dirname(os.path.abspath(__file__)))
sys.path.insert(0, HERE)
from sa.loader import Program, AnalysisError  # noqa: E402
from sa.run import run_property  # noqa: E402
from sa import report  # noqa: E402


def props():
    return sorted(f[:-3].upper() for f in os.listdir(os.path.join(HERE, "rules")) if f[0] == "c" and f[1:3].isdigit() and f.endswith(".py"))


def run_on(repo_dir, only=None):
    out = {}
    program = Program.from_dir(repo_dir)
    known = report.load_known()
    for prop in only or props():
        try:
            ctx, mod = run_property(prop, "quick", program)
            v = [o for o in ctx.violations() if report.known_match(prop, o, known) is None]
            u = [o for o in ctx.obligations if o["verdict"] == "UNRECOGNISED" and not o["builtin"]]
            floors = []
            for rule, floor in ctx.floors.items():
                n = sum(1 for o in ctx.obligations if o["rule"] == rule and not o["builtin"])
                if n < floor:
                    floors.append(f"{rule} floor {n}<{floor}")
            out[prop] = (v, u, floors)
        except AnalysisError as e:
            out[prop] = ([], [], [f"ANALYSIS-ERROR {e}"])
        except Exception as e:  # traceback = analysis broken
            import traceback

            traceback.print_exc()
            out[prop] = ([], [], [f"TRACEBACK {type(e).__name__}: {e}"])
    return out


def scratch_with_patch(patch):
    tmp = tempfile.mkdtemp(prefix="verif-seed-")
    shutil.copytree("/repo/fastavro", os.path.join(tmp, "fastavro"), ignore=shutil.ignore_patterns("__pycache__", "*.pyx", "*.so"))
    r = subprocess.run(["patch", "-p1", "-s", "-i", os.path.abspath(patch)], cwd=tmp, capture_output=True, text=True)
    if r.returncode != 0:
        shutil.rmtree(tmp)
        raise RuntimeError(f"patch failed: {r.stdout} {r.stderr}")
    return tmp


def _one(d):
    """(dir, target, status, fired, printed text) for one seeded change"""
    import io, contextlib

    buf = io.StringIO()
    with contextlib.redirect_stdout(buf):
        r = _one_inner(d)
    return r + (buf.getvalue(),)


def _one_inner(d):
    if True:
        d = d.rstrip("/")
        patch = os.path.join(d, "patch.diff")
        meta = {}
        if os.path.exists(os.path.join(d, "meta.json")):
            try:
                meta = json.load(open(os.path.join(d, "meta.json")))
            except Exception:
                meta = {}
        target = meta.get("property", "?")
        try:
            tmp = scratch_with_patch(patch)
        except RuntimeError as e:
            print(f"== {d}: {e}")
            return (d, target, "PATCH-FAILED", [])
        try:
            res = run_on(tmp)
        finally:
            shutil.rmtree(tmp, ignore_errors=True)
        fired = []
        errs = []
        for prop, (v, u, fl) in sorted(res.items()):
            for o in v:
                fired.append(f"{o['rule']}@{report.strip_line(o['where']).split(':')[-1]}")
            for o in u:
                errs.append(f"{o['rule']}:UNRECOGNISED")
            errs.extend(fl)
        status = "CAUGHT" if fired else ("ERROR-ONLY" if errs else "MISSED")
        print(f"== {d} [{target}] {status}")
        print(f"   summary: {meta.get('summary', '')[:160]}")
        for f in sorted(set(fired)):
            print(f"   fires: {f}")
        for e in sorted(set(errs)):
            print(f"   error: {e}")
        return (d, target, status, sorted(set(fired)))


def main(argv):
    from concurrent.futures import ProcessPoolExecutor

    dirs = argv or sorted(glob.glob(os.path.join(HERE, "seeded", "*", "")))
    summary = []
    with ProcessPoolExecutor(max_workers=min(16, os.cpu_count() or 4)) as ex:
        for d, target, status, fired, text in ex.map(_one, dirs):
            sys.stdout.write(text)
            summary.append((d, target, status, fired))
    # record the detection matrix next to the seeded mutants
    if not argv:
        res = {}
        for d, t, st, f in summary:
            name = d.rstrip("/").split("/")[-1]
            res[name] = {"breaks": t, "status": st, "fired": f}
            mp = os.path.join(d, "meta.json")
            if os.path.exists(mp):
                m = json.load(open(mp))
                m["detected_by"] = f
                m["detection_status"] = st
                json.dump(m, open(mp, "w"), indent=1)
        json.dump(res, open(os.path.join(HERE, "seeded", "RESULTS.json"), "w"), indent=1, sort_keys=True)
    print("\n---- summary ----")
    for d, t, s, f in summary:
        print(f"{s:11s} {t:4s} {os.path.basename(os.path.dirname(d + '/'))if False else d.split('/')[-2] + '/' + d.split('/')[-1] if d.count('/') > 1 else d}  {', '.join(f)[:120]}")
    n = len(summary)
    c = sum(1 for x in summary if x[2] == "CAUGHT")
    print(f"{c}/{n} caught")


if __name__ == "__main__":
    main(sys.argv[1:])
