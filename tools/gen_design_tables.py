#!/usr/bin/env python3
"""Regenerate the machine-derived appendices of DESIGN.md (between the markers
<!-- BEGIN GENERATED --> and <!-- END GENERATED -->): the rule ledger as implemented (rule id, text, obligations
on the current tree), the shared-rule table, and the seeded-mutant detection matrix from seeded/RESULTS.json."""
import json, os, re, sys
HERE = os.path.dirname(os.path.dirname(os.path.abspath(__file__)))
sys.path.insert(0, HERE)
from sa.loader import Program
from sa.run import run_property

def main():
    p = Program.from_dir(os.environ.get("VERIF_REPO", "/repo"))
    out = []
    out.append("### F.1 Rule ledger as implemented (obligations on the current tree)\n")
    out.append("| Rule | What it decides | obligations |\n|---|---|---|")
    for i in range(1, 21):
        prop = f"C{i:02d}"
        ctx, mod = run_property(prop, "quick", p)
        counts = {}
        for o in ctx.obligations:
            if not o["builtin"]:
                counts[o["rule"]] = counts.get(o["rule"], 0) + 1
        for rule in sorted(ctx.rule_text, key=lambda r: (r.split(".")[0], int(re.sub(r"\D", "", r.split(".")[1]) or 0))):
            txt = ctx.rule_text[rule].replace("|", "\\|")
            out.append(f"| {rule} | {txt[:400]} | {counts.get(rule, 0)} |")
    res = json.load(open(os.path.join(HERE, "seeded", "RESULTS.json")))
    out.append("\n### F.2 Seeded changes (sub-agent mutants confirmed on HEAD) and the rules that report them\n")
    out.append("Each change breaks the property in its name (demonstrated by its demo.py), compiles, and leaves the pinned suite unchanged. `own` = reported by a rule of the property it breaks.\n")
    out.append("| Change | Breaks | Reported by (rule@function) | own |\n|---|---|---|---|")
    own = other = miss = 0
    for name, r in sorted(res.items()):
        fired = r.get("fired", [])
        o = any(x.startswith(r["breaks"] + ".") for x in fired)
        if not fired:
            miss += 1
        elif o:
            own += 1
        else:
            other += 1
        out.append(f"| {name} | {r['breaks']} | {', '.join(fired[:6]) + (' ...' if len(fired) > 6 else '') if fired else '**not reported**'} | {'yes' if o else ('-' if not fired else 'no')} |")
    out.append(f"\nTotals: {len(res)} changes; {own} reported by a rule of the broken property, {other} only by a rule of another property, {miss} not reported.")
    text = "\n".join(out) + "\n"
    path = os.path.join(HERE, "DESIGN.md")
    src = open(path).read()
    b, e = "<!-- BEGIN GENERATED -->", "<!-- END GENERATED -->"
    if b in src and e in src:
        src = src[: src.index(b) + len(b)] + "\n" + text + src[src.index(e):]
    else:
        src = src.rstrip("\n") + "\n\n## Appendix F — generated tables (tools/gen_design_tables.py)\n\n" + b + "\n" + text + e + "\n"
    open(path, "w").write(src)
    print("ok", own, other, miss)

if __name__ == "__main__":
    main()
