import sys, ast, shutil, os, difflib
sys.path.insert(0,'/verif')
from tools.seeded import scratch_with_patch
from sa.loader import Program
from sa.refnorm import functions_of
head=Program.from_dir('/repo')
verbose='-v' in sys.argv
for name in [a for a in sys.argv[1:] if a!='-v']:
    tmp=scratch_with_patch(f'/verif/selftest/{"refactorings5" if name.startswith("V") else "refactorings4" if name.startswith("U") else "refactorings3" if name.startswith("T") else ("refactorings2" if name.startswith("S") else "refactorings")}/{name}/patch.diff')
    try:
        v=Program.from_dir(tmp)
    finally:
        shutil.rmtree(tmp,ignore_errors=True)
    diff=[]
    for k,m in head.modules.items():
        hv={q:n for q,n,c in functions_of(m.tree)}
        vv={q:n for q,n,c in functions_of(v.modules[k].tree)}
        for q in sorted(set(hv)|set(vv)):
            a=ast.unparse(hv[q]) if q in hv else ''
            b=ast.unparse(vv[q]) if q in vv else ''
            if a!=b:
                diff.append(f'{k}:{q}')
                if verbose:
                    for l in difflib.unified_diff(a.split('\n'),b.split('\n'),lineterm='',n=0): print('      ',l)
    print(name,'DIFF',diff)
    print('    ',[r for r in v.norm_report if r[0]!='renamed-locals'])
