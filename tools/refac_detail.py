import sys, shutil, json
sys.path.insert(0,'/verif')
from tools.seeded import scratch_with_patch, run_on
name=sys.argv[1]
tmp=scratch_with_patch(f'/verif/selftest/{"refactorings5" if name.startswith("V") else "refactorings4" if name.startswith("U") else "refactorings3" if name.startswith("T") else ("refactorings2" if name.startswith("S") else "refactorings")}/{name}/patch.diff')
try:
    res=run_on(tmp)
finally:
    shutil.rmtree(tmp,ignore_errors=True)
for prop,(v,u,fl) in sorted(res.items()):
    for o in v: print('VIOL',o['rule'],o['where'],'|',o.get('instance','')[:90],'|',o.get('construct','')[:160])
    for o in u: print('UNREC',o['rule'],o['where'],'|',o.get('detail','')[:200])
    for x in fl: print('ERR',prop,x[:300])
