#!/bin/sh
# Run the pinned test suite of /repo and compare with the stable baseline (BASELINE.json).
OUT=$(mktemp /tmp/junit.XXXXXX.xml)
cd /repo && /venv/bin/python -m pytest -ra -q -p no:cacheprovider --timeout=900 --continue-on-collection-errors --junitxml="$OUT" >/tmp/pytest.out 2>&1
tail -3 /tmp/pytest.out
/venv/bin/python - "$OUT" <<'PY'
import json, sys, xml.etree.ElementTree as ET
base = set(json.load(open('/root/.vp/BASELINE.json'))['stable_pass'])
passed = set()
for tc in ET.parse(sys.argv[1]).getroot().iter('testcase'):
    if not any(c.tag in ('failure','error','skipped') for c in tc):
        passed.add(f"{tc.get('classname')}::{tc.get('name')}")
missing = sorted(base - passed)
print(f"baseline stable={len(base)} passed_now={len(passed)} missing_from_baseline={len(missing)}")
for m in missing[:20]: print("  MISSING", m)
sys.exit(1 if missing else 0)
PY
rc=$?
rm -f "$OUT"
exit $rc
