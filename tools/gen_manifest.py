#!/usr/bin/env python3
"""Regenerate /verif/MANIFEST.json from the rule modules' own metadata.

Every rules/cXX.py that defines PROP, TECHNIQUE, LEVEL_TEXT, LEVEL_NOTE is
claimed; every other property of properties.jsonl goes to not_applicable with
the reason recorded in NOT_APPLICABLE below."""
import importlib
import json
import os
import sys

HERE = os.path.dirname(os.path.dirname(os.path.abspath(__file__)))
sys.path.insert(0, HERE)

NOT_APPLICABLE = {}


def main():
    props = [json.loads(l) for l in open(os.path.join(HERE, "properties.jsonl"))]
    checks, na = [], []
    for p in props:
        pid = p["id"]
        path = os.path.join(HERE, "rules", pid.lower() + ".py")
        if not os.path.exists(path):
            na.append({"property_id": pid, "reason": NOT_APPLICABLE.get(pid, "no static rule implemented yet for this property (build in progress)")})
            continue
        m = importlib.import_module("rules." + pid.lower())
        checks.append(
            {
                "property_id": pid,
                "quick_cmd": f"./check {pid} --tier quick",
                "thorough_cmd": f"./check {pid} --tier thorough",
                "evidence_file": f"/verif/evidence/{pid}.json",
                "replay_cmd_template": f"./check {pid} --replay {{path}}",
                "engine": "sa",
                "level_claimed": {
                    "category": "other",
                    "text": m.LEVEL_TEXT,
                    "design_ref": f"DESIGN.md section 5, {pid}",
                },
                "level_note": m.LEVEL_NOTE,
                "technique": "static analysis (stdlib ast; no code of the repository is executed, no solver) over a canonicalised program (semantics-preserving normal forms, alpha-equivalence by def-use webs, inlining of helpers unknown to the reference): " + m.TECHNIQUE,
            }
        )
    man = {
        "version": 1,
        "setup_cmd": "true",
        "hooks": {
            "guard": "FASTAVRO_VERIF",
            "enable": "none needed: static analysis parses /repo's working tree, no instrumentation is compiled in",
            "baseline_off_cmd": "cd /repo && /venv/bin/python -m pytest -ra -q -p no:cacheprovider --timeout=900 --continue-on-collection-errors",
            "source_commits": [],
            "add_only": True,
        },
        "engines": [
            {
                "name": "sa",
                "path": "/verif/sa",
                "serves_properties": [c["property_id"] for c in checks],
                "kind_free_text": "repository-specific static analysis over stdlib ast: resolver + constant folder, dispatch tables, CHA call graph, statement CFG with exception edges and dominance, global label-propagation effect analysis, wire-shape extraction against frozen Avro specification tables",
            }
        ],
        "checks": checks,
        "notes": "Family: static analysis. Every check parses /repo/fastavro on each run (VERIF_REPO overrides the path), imports nothing from it, and decides structural necessary conditions of its property; the behavioural core over runtime values is declared not decided in each level_note. Exit 0 / 1 (VIOLATION line) / 2 (ANALYSIS-ERROR, fail closed). Genuine defects repaired by fix: commits are listed in known_findings.json under 'fixed'.",
        "not_applicable": na,
    }
    with open(os.path.join(HERE, "MANIFEST.json"), "w") as fh:
        json.dump(man, fh, indent=1)
    print(f"MANIFEST.json: {len(checks)} checks, {len(na)} not_applicable")


if __name__ == "__main__":
    main()
