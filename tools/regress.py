#!/usr/bin/env python3
"""One-shot regression over the four corpora (16 workers):
  clean tree (must be silent) | self-test variants | seeded mutants (must fire) | refactorings (must be silent)
usage: regress.py [--no-selftest] [--only-refac] [--only-seeded]"""
import glob, json, os, shutil, sys, time
from concurrent.futures import ProcessPoolExecutor
HERE = os.path.dirname(os.path.dirname(os.path.abspath(__file__)))
sys.path.insert(0, HERE)


def job(args):
    kind, d = args
    from tools.seeded import scratch_with_patch, run_on
    if kind == "clean":
        res = run_on("/repo")
    else:
        try:
            tmp = scratch_with_patch(os.path.join(d, "patch.diff"))
        except RuntimeError as e:
            return (kind, d, "PATCH-FAILED", [], [], [])
        try:
            res = run_on(tmp)
        finally:
            shutil.rmtree(tmp, ignore_errors=True)
    viol, unrec, errs = [], [], []
    for prop, (v, u, fl) in sorted(res.items()):
        viol += [f"{o['rule']}@{o['where'].split(':')[1] if ':' in o['where'] else o['where']}" for o in v]
        unrec += [f"{o['rule']}@{o['where'].split(':')[1] if ':' in o['where'] else o['where']}: {o['detail'][:80]}" for o in u]
        errs += [f"{prop}: {x[:120]}" for x in fl]
    return (kind, d, "OK", sorted(set(viol)), sorted(set(unrec)), sorted(set(errs)))


def main(argv):
    jobs = []
    if "--only-refac" not in argv and "--only-seeded" not in argv:
        jobs.append(("clean", "/repo"))
    if "--only-refac" not in argv:
        jobs += [("seeded", d.rstrip("/")) for d in sorted(glob.glob(os.path.join(HERE, "seeded", "*", "")))]
    if "--only-seeded" not in argv:
        jobs += [("refac", d.rstrip("/")) for d in sorted(glob.glob(os.path.join(HERE, "selftest", "refactorings*", "*", "")))]
    t0 = time.time()
    with ProcessPoolExecutor(max_workers=16) as ex:
        results = list(ex.map(job, jobs))
    caught = missed = silent = noisy_v = noisy_e = 0
    verbose = "-v" in argv
    for kind, d, st, viol, unrec, errs in results:
        name = os.path.basename(d)
        if kind == "clean":
            print(f"CLEAN TREE: violations={viol} unrecognised={unrec} errors={errs}")
        elif kind == "seeded":
            if viol:
                caught += 1
            else:
                missed += 1
                print(f"MISSED   {name}: unrecognised={len(unrec)} errors={len(errs)} {st}")
        else:
            if not viol and not unrec and not errs:
                silent += 1
            else:
                if viol:
                    noisy_v += 1
                else:
                    noisy_e += 1
                print(f"NOISY    {name}: VIOLATIONS={viol}")
                if verbose or not viol:
                    for u in unrec: print(f"           unrecognised {u}")
                    for e in errs: print(f"           error {e}")
                elif unrec or errs:
                    print(f"           (+{len(unrec)} unrecognised, {len(errs)} errors)")
    print(f"seeded: {caught} caught, {missed} missed | refactorings: {silent} silent, {noisy_v} with false VIOLATION, {noisy_e} with only unrecognised/error | {time.time()-t0:.0f}s")
    if "--no-selftest" not in argv and "--only-refac" not in argv and "--only-seeded" not in argv:
        from selftest.run_selftest import run
        res, dt = run()
        bad = [r for r in res if r[2] == "FAILED"]
        for r in bad: print("SELFTEST FAILED", r[0], r[3][:200])
        print(f"selftest: {len(res) - len(bad)}/{len(res)} ok ({dt:.0f}s)")


if __name__ == "__main__":
    main(sys.argv[1:])
