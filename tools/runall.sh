#!/bin/sh
# run all quick checks in parallel against $VERIF_REPO (default /repo); print one line each
cd /verif
for i in 01 02 03 04 05 06 07 08 09 10 11 12 13 14 15 16 17 18 19 20; do (timeout 900 ./check C$i --tier quick 2>&1 | tail -1) & done 2>/dev/null
wait
