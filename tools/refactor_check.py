#!/usr/bin/env python3
"""Run every check on behaviour-preserving refactorings: all must stay silent (no VIOLATION, no error).
usage: refactor_check.py DIR ...   (each holds patch.diff, meta.json)"""
import json, os, shutil, sys
HERE = os.path.dirname(os.path.dirname(os.path.abspath(__file__)))
sys.path.insert(0, HERE)
from tools.seeded import scratch_with_patch, run_on

def main(dirs):
    bad = 0
    for d in dirs:
        d = d.rstrip("/")
        try:
            tmp = scratch_with_patch(os.path.join(d, "patch.diff"))
        except RuntimeError as e:
            print(f"== {d}: PATCH-FAILED {e}"); continue
        try:
            res = run_on(tmp)
        finally:
            shutil.rmtree(tmp, ignore_errors=True)
        msgs = []
        for prop, (v, u, fl) in sorted(res.items()):
            for o in v: msgs.append(f"VIOLATION {o['rule']} @ {o['where']}: {o['construct'][:110]}")
            for o in u: msgs.append(f"UNRECOGNISED {o['rule']} @ {o['where']}: {o['detail'][:110]}")
            for x in fl: msgs.append(f"ERROR {prop}: {x[:140]}")
        style = ""
        try: style = json.load(open(os.path.join(d, "meta.json"))).get("style", "")[:50]
        except Exception: pass
        print(f"== {d} [{style}] {'SILENT' if not msgs else 'NOISY'}")
        for m in sorted(set(msgs)): print("   ", m)
        bad += bool(msgs)
    print(f"{len(dirs) - bad}/{len(dirs)} silent")

if __name__ == "__main__":
    main(sys.argv[1:])
