"""outcomes of the checks on /repo + an arbitrary patch file:  patch_detail.py <patch.diff> [props...]"""
import sys, shutil
sys.path.insert(0, '/verif')
from tools.seeded import scratch_with_patch, run_on
tmp = scratch_with_patch(sys.argv[1])
try:
    res = run_on(tmp, sys.argv[2:] or None)
finally:
    shutil.rmtree(tmp, ignore_errors=True)
for prop, (v, u, fl) in sorted(res.items()):
    for o in v: print('VIOL', o['rule'], o['where'], '|', o.get('instance', '')[:90], '|', o.get('construct', '')[:160])
    for o in u: print('UNREC', o['rule'], o['where'], '|', o.get('detail', '')[:200])
    for x in fl: print('ERR', prop, x[:300])
