#!/usr/bin/env python3
"""Regenerate sa/reference/inventory.json (alpha-digests, local names and private callee names of every
function) from the tree the rules are confirmed on.  Used only by sa/refnorm.py to choose spellings.
usage: tools/gen_inventory.py [repo]   (default /repo)"""
import json, os, sys
HERE = os.path.dirname(os.path.dirname(os.path.abspath(__file__)))
sys.path.insert(0, HERE)
os.environ["VERIF_NO_REFNORM"] = "1"
from sa.loader import Program
from sa import refnorm

repo = sys.argv[1] if len(sys.argv) > 1 else "/repo"
p = Program.from_dir(repo)
inv = refnorm.build_inventory({m.relpath: m.tree for m in p.modules.values()})
os.makedirs(os.path.dirname(refnorm.INVENTORY), exist_ok=True)
with open(refnorm.INVENTORY, "w") as fh:
    json.dump(inv, fh, indent=0, sort_keys=True)
    fh.write("\n")
print("functions:", sum(len(v) for v in inv["modules"].values()), "modules:", len(inv["modules"]), "bytes:", os.path.getsize(refnorm.INVENTORY))
