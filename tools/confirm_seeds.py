#!/usr/bin/env python3
"""Confirm candidate seeded mutants on a scratch worktree of /repo's HEAD and store the
confirmed ones under /verif/seeded/<prop>-m<k>/ (patch.diff, demo.py, meta.json).

For each candidate dir (patch.diff, demo.py, meta.json):
  1. demo passes on the clean worktree (exit 0)
  2. patch applies (git apply), package byte-compiles
  3. demo fails with the patch (exit != 0)
  4. pinned suite: the set of passing baseline tests is unchanged (no baseline test lost)
  5. worktree reset
"""
import glob, json, os, shutil, subprocess, sys, xml.etree.ElementTree as ET

HERE = os.path.dirname(os.path.dirname(os.path.abspath(__file__)))
WT = os.environ.get("CONFIRM_WT", "/tmp/confirm-wt")
PY = "/venv/bin/python"


def sh(cmd, cwd=None, timeout=900):
    return subprocess.run(cmd, cwd=cwd, shell=True, capture_output=True, text=True, timeout=timeout)


def suite(cwd):
    out = WT.rstrip("/") + "-junit.xml"
    r = sh(f"{PY} -m pytest -q -p no:cacheprovider --timeout=900 --continue-on-collection-errors --junitxml={out} 2>&1 | tail -1", cwd)
    base = set(json.load(open("/root/.vp/BASELINE.json"))["stable_pass"])
    passed = set()
    for tc in ET.parse(out).getroot().iter("testcase"):
        if not any(c.tag in ("failure", "error", "skipped") for c in tc):
            passed.add(f"{tc.get('classname')}::{tc.get('name')}")
    os.remove(out)
    return sorted(base - passed), r.stdout.strip()


def main(dirs):
    if os.path.exists(WT):
        sh(f"git -C /repo worktree remove --force {WT}")
    r = sh(f"git -C /repo worktree add --detach {WT} HEAD")
    assert r.returncode == 0, r.stderr
    head = sh("git -C /repo rev-parse --short HEAD").stdout.strip()
    results = []
    try:
        for d in dirs:
            d = d.rstrip("/")
            name = d.split("/")[-2] + "-" + d.split("/")[-1]
            patch, demo = os.path.join(d, "patch.diff"), os.path.join(d, "demo.py")
            meta = json.load(open(os.path.join(d, "meta.json")))
            env = f"cd {WT} && PYTHONPATH=. {PY} {demo}"
            clean = sh(env)
            ap = sh(f"git apply {patch}", WT)
            if ap.returncode != 0:
                results.append((name, "PATCH-FAILED", ap.stderr.strip()[:100]))
                sh("git checkout -- . && git clean -fdq", WT)
                continue
            comp = sh(f"{PY} -m compileall -q fastavro", WT)
            mut = sh(env)
            missing, tail = suite(WT)
            sh("git checkout -- . && git clean -fdq", WT)
            ok = clean.returncode == 0 and mut.returncode != 0 and comp.returncode == 0 and not missing
            status = "CONFIRMED" if ok else "REJECTED"
            results.append((name, status, f"clean={clean.returncode} mutated={mut.returncode} compile={comp.returncode} baseline_lost={len(missing)} suite='{tail}'"))
            print(name, status, results[-1][2], flush=True)
            if ok:
                dst = os.path.join(HERE, "seeded", name)
                os.makedirs(dst, exist_ok=True)
                shutil.copy(patch, os.path.join(dst, "patch.diff"))
                shutil.copy(demo, os.path.join(dst, "demo.py"))
                meta["confirmed"] = {
                    "repo_head": head,
                    "ran": [
                        f"git worktree of /repo HEAD at {WT}",
                        "PYTHONPATH=. /venv/bin/python demo.py on the clean tree -> exit 0",
                        "git apply patch.diff; python -m compileall fastavro -> ok",
                        f"demo.py with the patch -> exit {mut.returncode}: {(mut.stdout + mut.stderr).strip().splitlines()[-1][:200] if (mut.stdout + mut.stderr).strip() else ''}",
                        f"pinned suite with the patch: {tail}; stable baseline tests lost: 0",
                        "git checkout -- . (worktree removed afterwards)",
                    ],
                }
                meta["breaks_property"] = meta.get("property")
                json.dump(meta, open(os.path.join(dst, "meta.json"), "w"), indent=1)
    finally:
        sh(f"git -C /repo worktree remove --force {WT}")
    print("\n".join(f"{s:12s} {n}  {x}" for n, s, x in results if s != "CONFIRMED"))
    print(sum(1 for r in results if r[1] == "CONFIRMED"), "/", len(results), "confirmed")


if __name__ == "__main__":
    main(sys.argv[1:] or sorted(glob.glob("/tmp/wt/out/C??/m?/")))
