#!/usr/bin/env python3
"""Run the self-test corpus (selftest/variants.py) in memory, 16 workers.

usage: python -m selftest.run_selftest [PROP ...]     (default: every property)
A firing variant must make each listed property report a VIOLATION of one of the expected
rules; a silent variant must leave the property without VIOLATION / UNRECOGNISED.
"""
import os
import sys
import time
from concurrent.futures import ProcessPoolExecutor

HERE = os.path.dirname(os.path.dirname(os.path.abspath(__file__)))
sys.path.insert(0, HERE)

_base = None


def base_program():
    global _base
    if _base is None:
        from sa.loader import Program
        from sa.run import repo_path

        _base = Program.from_dir(repo_path())
    return _base


def run_variant(args):
    vid, kind, props, file, old, new, rules, only = args
    from sa.run import run_property
    from sa.loader import AnalysisError

    base = base_program()
    src = base.sources.get(file)
    if src is None or src.count(old) != 1:
        return (vid, kind, "SKIPPED", f"edit site occurs {0 if src is None else src.count(old)} times", [])
    try:
        var = base.variant(file, src.replace(old, new))
    except AnalysisError as e:
        return (vid, kind, "FAILED", f"variant does not parse: {e}", [])
    out = []
    status = "OK"
    for prop in props:
        if only and prop not in only:
            continue
        try:
            ctx, mod = run_property(prop, "quick", var)
        except AnalysisError as e:
            if kind == "silent":
                status = "FAILED"
            out.append(f"{prop}: ANALYSIS-ERROR {e}")
            if kind == "fire":
                status = "FAILED"
            continue
        except Exception as e:
            out.append(f"{prop}: TRACEBACK {type(e).__name__}: {e}")
            status = "FAILED"
            continue
        viol = sorted({o["rule"] for o in ctx.violations()})
        unrec = sorted({o["rule"] for o in ctx.obligations if o["verdict"] == "UNRECOGNISED" and not o["builtin"]})
        if kind == "fire":
            want = [r for r in rules if r.startswith(prop + ".")]
            hit = [r for r in want if r in viol]
            if want and not hit:
                status = "FAILED"
                out.append(f"{prop}: expected one of {want}, got violations {viol} unrecognised {unrec}")
            else:
                out.append(f"{prop}: fires {hit or viol}")
        else:
            if viol or unrec:
                status = "FAILED"
                out.append(f"{prop}: silent variant reported violations {viol} unrecognised {unrec}")
            else:
                out.append(f"{prop}: silent")
    return (vid, kind, status, "; ".join(out), [])


def run(only=None, workers=16):
    from selftest.variants import V

    jobs = []
    for (vid, kind, props, file, old, new, rules) in V:
        if only and not (set(props) & set(only)):
            continue
        jobs.append((vid, kind, props, file, old, new, rules, set(only) if only else None))
    t0 = time.time()
    with ProcessPoolExecutor(max_workers=min(workers, max(1, len(jobs)))) as ex:
        results = list(ex.map(run_variant, jobs))
    return results, time.time() - t0


def main(argv):
    only = [a.upper() for a in argv] or None
    results, dt = run(only)
    bad = 0
    for vid, kind, status, detail, _ in results:
        if status != "OK":
            print(f"{status:8s} {kind:6s} {vid}: {detail}")
        if status == "FAILED":
            bad += 1
    n_ok = sum(1 for r in results if r[2] == "OK")
    n_skip = sum(1 for r in results if r[2] == "SKIPPED")
    print(f"{len(results)} variants: {n_ok} ok, {n_skip} skipped (edit site absent), {bad} failed, {dt:.1f}s")
    return 1 if bad else 0


if __name__ == "__main__":
    sys.exit(main(sys.argv[1:]))
