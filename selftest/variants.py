"""Self-test corpus: textual edits of the current tree, analysed in memory.

kind 'fire'   : one protecting construct is broken in a way that still byte-compiles;
                the named rule(s) must report a VIOLATION at that instance.
kind 'silent' : a behaviour-preserving rewrite; the property's rules must report nothing
                (no VIOLATION, no UNRECOGNISED).
A variant whose edit site no longer exists in the tree is skipped, not failed.
Each entry: (id, kind, [properties], file, old, new, [rule prefixes expected to fire])
"""

V = []


def fire(vid, props, file, old, new, rules):
    V.append((vid, "fire", props, file, old, new, rules))


def silent(vid, props, file, old, new):
    V.append((vid, "silent", props, file, old, new, []))


R, W, S, VA = "fastavro/_read_py.py", "fastavro/_write_py.py", "fastavro/_schema_py.py", "fastavro/_validation_py.py"
BE, BD = "fastavro/io/binary_encoder.py", "fastavro/io/binary_decoder.py"
JE, JD, PA = "fastavro/io/json_encoder.py", "fastavro/io/json_decoder.py", "fastavro/io/parser.py"
LW, LR, UT = "fastavro/_logical_writers_py.py", "fastavro/_logical_readers_py.py", "fastavro/utils.py"

# ---------------------------------------------------------------- C01 / C02 / C03 (wire shapes)
fire("skips-float-double", ["C03", "C08"], R, '    "float": skip_float,', '    "float": skip_double,', ["C03.R2", "C08.R2"])
fire("record-sorted-fields", ["C01", "C02"], W, '    for field in schema["fields"]:\n        name = field["name"]', '    for field in sorted(schema["fields"], key=str):\n        name = field["name"]', ["C01.R2", "C01.R3", "C02.R1"])
fire("map-value-before-key", ["C01", "C03"], R, "        key = decoder.read_utf8()\n        read_items[key] = item_reader(decoder, writer_schema, reader_schema)", "        val = item_reader(decoder, writer_schema, reader_schema)\n        read_items[decoder.read_utf8()] = val", ["C01.R2", "C03.R1"])
fire("readers-lose-fixed", ["C01"], R, '    "fixed": read_fixed,\n', "", ["C01.R1"])
fire("float-big-endian", ["C02", "C01"], BE, 'pack("<f", datum)', 'pack(">f", datum)', ["C02.R1", "C01.R2"])
fire("utf8-length-in-chars", ["C02"], BE, "        self.write_bytes(encoded)", "        self.write_long(len(datum))\n        self._fo.write(encoded)", ["C02.R2"])
fire("array-end-only-nonempty", ["C02", "C01"], W, "            encoder.end_item()\n    encoder.write_array_end()", "            encoder.end_item()\n        encoder.write_array_end()", ["C02.R1", "C01.R2"])
fire("fixed-gate-weakened", ["C02", "C16"], W, '    if len(datum) != schema["size"]:', '    if len(datum) > schema["size"]:', ["C02.R3", "C16.R5"])
fire("enum-index-of-wrong-list", ["C02"], W, '    index = schema["symbols"].index(datum)', '    index = sorted(schema["symbols"]).index(datum)', ["C02.R2"])
fire("union-unvalidated-choice", ["C02", "C09"], W, "        if best_match_index == -1:\n            field = f\"on field {fname}\" if fname else \"\"\n            raise ValueError(\n                f\"{repr(datum)}", "        if best_match_index == -1 and len(schema) > 0:\n            best_match_index = 0\n        if best_match_index == -1:\n            field = f\"on field {fname}\" if fname else \"\"\n            raise ValueError(\n                f\"{repr(datum)}", ["C02.R4", "C09.R2"])
fire("default-on-none", ["C02"], W, '        datum_value = datum.get(name, field.get("default"))', '        datum_value = datum.get(name)\n        if datum_value is None:\n            datum_value = field.get("default")', ["C02.R5"])
fire("bytes-len-check-dropped", ["C03", "C06"], BD, "        out = self.fo.read(size)\n        if len(out) != size:\n            raise EOFError(f\"Expected {size} bytes, read {len(out)}\")\n        return out", "        out = self.fo.read(size)\n        return out", ["C03.R4"])
fire("negative-count-arm-deleted", ["C03", "C01"], BD, "            if self._block_count < 0:\n                self._block_count = -self._block_count\n                # Read block size, unused\n                self.read_long()\n", "", ["C03.R1", "C01.R2"])
fire("skip-map-without-key", ["C03", "C08"], R, "        decoder.read_utf8()\n        skip_data(decoder, writer_schema[\"values\"], named_schemas)", "        skip_data(decoder, writer_schema[\"values\"], named_schemas)", ["C03.R2", "C08.R2"])
fire("union-index-unchecked", ["C03"], R, "    index = decoder.read_index()\n    if index < 0 or index >= len(writer_schema):\n        raise ValueError(f\"union index {index} out of range for {writer_schema}\")\n    idx_schema = writer_schema[index]", "    index = decoder.read_index()\n    idx_schema = writer_schema[index]", ["C03.R3"])
fire("union-index-upper-only", ["C03"], R, "    index = decoder.read_index()\n    if index < 0 or index >= len(writer_schema):\n        raise ValueError(f\"union index {index} out of range for {writer_schema}\")\n    skip_data(", "    index = decoder.read_index()\n    if index >= len(writer_schema):\n        raise ValueError(f\"union index {index} out of range for {writer_schema}\")\n    skip_data(", ["C03.R3"])
fire("skip-enum-unchecked", ["C03"], R, "    index = decoder.read_enum()\n    if index < 0 or index >= len(writer_schema[\"symbols\"]):\n        raise ValueError(f\"enum index {index} out of range for {writer_schema}\")\n\n\ndef read_array", "    decoder.read_enum()\n\n\ndef read_array", ["C03.R3"])
fire("stream-seek-in-decoder", ["C01", "C04"], BD, '        return unpack("<d", self.fo.read(8))[0]', '        self.fo.seek(0, 1)\n        return unpack("<d", self.fo.read(8))[0]', ["C01.R5", "C04.R1"])
silent("range-check-rewritten", ["C03", "C01"], R, "    index = decoder.read_index()\n    if index < 0 or index >= len(writer_schema):\n        raise ValueError(f\"union index {index} out of range for {writer_schema}\")\n    idx_schema = writer_schema[index]", "    index = decoder.read_index()\n    if not 0 <= index < len(writer_schema):\n        raise ValueError(f\"union index {index} out of range for {writer_schema}\")\n    idx_schema = writer_schema[index]")
silent("struct-format-count-1", ["C02", "C01"], BE, 'pack("<f", datum)', 'pack("<1f", datum)')
silent("rename-local-dtype", ["C01", "C02"], W, '        dtype = schema["items"]\n        for item in datum:\n            write_data(encoder, item, dtype, named_schemas, fname, options)', '        item_schema = schema["items"]\n        for element in datum:\n            write_data(encoder, element, item_schema, named_schemas, fname, options)')
silent("inline-read-utf8", ["C01", "C03"], BD, "        return self.read_bytes().decode(errors=handle_unicode_errors)", "        raw = self.read_bytes()\n        return raw.decode(errors=handle_unicode_errors)")
silent("guard-flipped-operands", ["C03", "C01"], BD, "            if self._block_count < 0:", "            if 0 > self._block_count:")

# ---------------------------------------------------------------- C04 / C05 / C06 / C07 (container)
fire("flush-ignores-count", ["C04", "C07"], W, "    def flush(self):\n        if self.io._fo.tell() or self.block_count > 0:", "    def flush(self):\n        if self.io._fo.tell():", ["C04.R3", "C07.R4"])
fire("dump-without-seek", ["C04"], W, "        self.io._fo.truncate(0)\n        self.io._fo.seek(0, SEEK_SET)\n", "        self.io._fo.truncate(0)\n", ["C04.R3"])
fire("block-readers-lose-xz", ["C04"], R, '    "xz": xz_read_block,\n', "", ["C04.R4"])
fire("fo-seek-in-record-iterator", ["C04"], R, "        block_fo = read_block(decoder)\n\n        for i in range(block_count):", "        decoder.fo.seek(0, 1)\n        block_fo = read_block(decoder)\n\n        for i in range(block_count):", ["C04.R1"])
fire("codec-setdefault", ["C04"], W, '        self.metadata["avro.codec"] = codec', '        self.metadata.setdefault("avro.codec", codec)', ["C04.R2"])
fire("deflate-reader-zlib-wrapped", ["C04"], R, "    return BytesIO(zlib.decompressobj(-15).decompress(data))", "    return BytesIO(zlib.decompress(data))", ["C04.R4"])
fire("increment-before-encode", ["C04", "C07"], W, "        position = self.io._fo.tell()\n        try:\n            write_data(\n                self.io, record, self.schema, self._named_schemas, \"\", self.options\n            )\n        except BaseException:\n            # A record that fails part way through must not leave its first\n            # bytes in the pending block\n            self.io._fo.seek(position, SEEK_SET)\n            self.io._fo.truncate(position)\n            raise\n        self.block_count += 1\n", "        self.block_count += 1\n        position = self.io._fo.tell()\n        try:\n            write_data(\n                self.io, record, self.schema, self._named_schemas, \"\", self.options\n            )\n        except BaseException:\n            # A record that fails part way through must not leave its first\n            # bytes in the pending block\n            self.io._fo.seek(position, SEEK_SET)\n            self.io._fo.truncate(position)\n            raise\n", ["C04.R3", "C07.R2"])
fire("magic-changed", ["C05"], "fastavro/_read_common.py", "VERSION = 1", "VERSION = 2", ["C05.R1"])
fire("codec-bare-subscript", ["C05"], R, '        self.codec = self.metadata.get("avro.codec", "null")', '        self.codec = self.metadata["avro.codec"]', ["C05.R3"])
fire("block-size-before-sync", ["C05"], R, "        skip_sync(decoder.fo, sync_marker)\n\n        size = decoder.fo.tell() - offset", "        size = decoder.fo.tell() - offset\n\n        skip_sync(decoder.fo, sync_marker)", ["C05.R5"])
fire("is-avro-short-read", ["C05"], R, "        header = fp.read(len(MAGIC))", "        header = fp.read(3)", ["C05.R4"])
fire("block-read-inside-try", ["C06"], R, "            block_count = decoder.read_long()\n        except EOFError:\n            return\n\n        block_fo = read_block(decoder)", "            block_count = decoder.read_long()\n            block_fo = read_block(decoder)\n        except EOFError:\n            return", ["C06.R1"])
fire("except-exception", ["C06"], R, "            num_block_records = decoder.read_long()\n        except EOFError:\n            return", "            num_block_records = decoder.read_long()\n        except Exception:\n            return", ["C06.R1"])
fire("sync-only-if-records", ["C06"], R, "        skip_sync(decoder.fo, sync_marker)\n\n\ndef _iter_avro_blocks", "        if block_count:\n            skip_sync(decoder.fo, sync_marker)\n\n\ndef _iter_avro_blocks", ["C06.R4"])
fire("eof-in-continuation", ["C06"], BD, "            b = ord(self.fo.read(1))", "            c = self.fo.read(1)\n            if not c:\n                raise EOFError\n            b = ord(c)", ["C06.R2"])
fire("header-eof-swallowed", ["C06"], R, '        except EOFError:\n            raise ValueError("cannot read header - is it an avro file?")', "        except EOFError:\n            self._header = {\"meta\": {}, \"sync\": b\"\"}", ["C06.R5", "C06.R1"])
fire("rollback-removed", ["C07"], W, "        position = self.io._fo.tell()\n        try:\n            write_data(\n                self.io, record, self.schema, self._named_schemas, \"\", self.options\n            )\n        except BaseException:\n            # A record that fails part way through must not leave its first\n            # bytes in the pending block\n            self.io._fo.seek(position, SEEK_SET)\n            self.io._fo.truncate(position)\n            raise\n", "        write_data(self.io, record, self.schema, self._named_schemas, \"\", self.options)\n", ["C07.R1"])
fire("rollback-without-seek", ["C07"], W, "            self.io._fo.seek(position, SEEK_SET)\n            self.io._fo.truncate(position)", "            self.io._fo.truncate(position)", ["C07.R1"])
fire("write-block-without-dump", ["C07"], W, "        # Clear existing block if there are any records pending\n        if self.io._fo.tell() or self.block_count > 0:\n            self.dump()\n        self.encoder.write_long(block.num_records)", "        self.encoder.write_long(block.num_records)", ["C07.R3"])
fire("append-uses-codec-arg", ["C07"], W, '            codec = avro_reader.metadata.get("avro.codec", "null")\n', "", ["C07.R5", "C05.R3"])
silent("flush-guard-reordered", ["C04", "C07"], W, "    def flush(self):\n        if self.io._fo.tell() or self.block_count > 0:", "    def flush(self):\n        if self.block_count > 0 or self.io._fo.tell():")
silent("dump-local-payload", ["C04", "C05"], W, "        self.block_writer(self.encoder, self.io._fo.getvalue(), self.compression_level)\n        self.encoder._fo.write(self.sync_marker)\n        self.io._fo.truncate(0)", "        payload = self.io._fo.getvalue()\n        self.block_writer(self.encoder, payload, self.compression_level)\n        self.encoder._fo.write(self.sync_marker)\n        self.io._fo.truncate(0)")

# ---------------------------------------------------------------- C08 / C09 / C10
fire("long-promotes-to-int", ["C08"], R, 'elif writer_type == "long" and reader_type in ["float", "double"]:', 'elif writer_type == "long" and reader_type in ["float", "double", "int"]:', ["C08.R1"])
fire("promotion-dropped", ["C08"], R, '    elif writer_type == "float" and reader_type == "double":\n        return True\n', "", ["C08.R1"])
fire("no-exact-pass", ["C08"], R, "        if extract_record_type(schema) == w_type and match_types(\n            w_schema, schema, named_schemas\n        ):\n            return schema", "        if match_types(w_schema, schema, named_schemas):\n            return schema", ["C08.R6"])
fire("reader-table-crossed", ["C08"], R, '            named_schemas["reader"].get(reader_schema),', '            named_schemas["writer"].get(reader_schema),', ["C08.R5"])
fire("match-schemas-falls-off", ["C08"], R, "        elif match_types(w_type, r_type, named_schemas):\n            return r_schema\n        raise SchemaResolutionError(error_msg)", "        elif match_types(w_type, r_type, named_schemas):\n            return r_schema", ["C08.R4"])
fire("tie-break-nonstrict", ["C09"], W, "                    if fields > most_fields:", "                    if fields >= most_fields:", ["C09.R3"])
fire("validator-label-record-only", ["C09", "C10"], VA, "            if extracted_type in NAMED_TYPES:\n                schema_name = candidate[\"name\"]", "            if extracted_type == \"record\":\n                schema_name = candidate[\"name\"]", ["C09.R1", "C10.R6"])
fire("validator-unknown-hint-falls-through", ["C09"], VA, "        else:\n            return False\n\n    errors = []", "\n    errors = []", ["C09.R2"])
fire("validators-lose-fixed", ["C10"], VA, '    "fixed": _validate_fixed,\n', "", ["C10.R1"])
fire("raise-test-dropped", ["C10"], VA, "    if raise_errors and result is False:\n        raise ValidationError(ValidationErrorData(datum, schema, field))\n\n    return result", "    return result", ["C10.R2"])
fire("gate-after-encoding", ["C10"], W, "    def write(self, record):\n        if self.validate_fn:\n            self.validate_fn(\n                record, self.schema, self._named_schemas, \"\", True, self.options\n            )\n        write_data(\n            self.encoder, record", "    def write(self, record):\n        write_data(\n            self.encoder, record", ["C10.R3"])
fire("strict-forgives-nullable", ["C10"], W, '            if options.get("strict") or (', '            if (options.get("strict") and "null" not in field_type) or (', ["C10.R4"])
silent("validator-early-loop", ["C10"], VA, '    return datum in schema["symbols"]', '    symbols = schema["symbols"]\n    return datum in symbols')

# ---------------------------------------------------------------- C11 - C14
fire("namespace-or-parent", ["C11", "C13"], S, '    namespace = schema.get("namespace", parent_ns)', '    namespace = schema.get("namespace") or parent_ns', ["C11.R1"])
fire("fixed-no-redefinition-check", ["C11"], S, '            _, fullname = schema_name(schema, namespace)\n            if fullname in names:\n                raise SchemaParseException(f"redefined named type: {fullname}")\n            names.add(fullname)\n\n            if default is not NO_DEFAULT and not isinstance(default, str):\n                _raise_default_value_error(default, schema_type, ignore_default_error)\n\n            named_schemas[fullname] = parsed_schema\n\n            parsed_schema["name"] = fullname\n            parsed_schema["size"]', '            _, fullname = schema_name(schema, namespace)\n            names.add(fullname)\n\n            if default is not NO_DEFAULT and not isinstance(default, str):\n                _raise_default_value_error(default, schema_type, ignore_default_error)\n\n            named_schemas[fullname] = parsed_schema\n\n            parsed_schema["name"] = fullname\n            parsed_schema["size"]', ["C11.R2"])
fire("reference-known-fast-path", ["C11", "C19"], S, '        if "." not in schema and namespace:\n            schema = namespace + "." + schema\n\n        if schema not in named_schemas:', '        if schema not in named_schemas and "." not in schema and namespace:\n            schema = namespace + "." + schema\n\n        if schema not in named_schemas:', ["C11.R3", "C19.R3"])
fire("symbol-regex-loosened", ["C11"], S, 'SYMBOL_REGEX = re.compile(r"[A-Za-z_][A-Za-z0-9_]*")', 'SYMBOL_REGEX = re.compile(r"[A-Za-z_][A-Za-z0-9_.]*")', ["C11.R4"])
fire("float-default-int-rejected", ["C11"], S, '        or (schema == "float" and not isinstance(_maybe_float(default), float))', '        or (schema == "float" and not isinstance(default, float))', ["C11.R5"])
fire("decimal-scale-check-dropped", ["C11"], S, "            if scale and precision and precision < scale:\n                raise SchemaParseException(\n                    \"decimal scale must be less than or equal to \"\n                    + f\"the precision of {precision}\"\n                )\n", "", ["C11.R6"])
fire("early-return-without-copy", ["C12"], S, '        if "__named_schemas" in schema:\n            for key, value in schema["__named_schemas"].items():\n                named_schemas[key] = value\n        else:', '        if "__named_schemas" in schema:\n            pass\n        else:', ["C12.R2"])
fire("header-without-closure", ["C12"], W, "            schema = _self_contained_schema(schema, self._named_schemas)\n", "            pass\n", ["C12.R3"])
fire("validate-private-table", ["C12"], VA, "    named_schemas: NamedSchemas = {}\n    parsed_schema = parse_schema(schema, named_schemas)\n    return _validate(\n        datum,\n        parsed_schema,\n        named_schemas,", "    named_schemas: NamedSchemas = {}\n    parsed_schema = parse_schema(schema, named_schemas)\n    return _validate(\n        datum,\n        parsed_schema,\n        {},", ["C12.R1"])
fire("canonical-order-swapped", ["C13"], S, "            fo.write(f'{{\"name\":\"{name}\",\"type\":\"{schema_type}\",\"size\":{size}}}')", "            fo.write(f'{{\"type\":\"{schema_type}\",\"name\":\"{name}\",\"size\":{size}}}')", ["C13.R1"])
fire("canonical-whitespace", ["C13"], S, '                if idx != 0:\n                    fo.write(",")\n                name = field["name"]', '                if idx != 0:\n                    fo.write(", ")\n                name = field["name"]', ["C13.R1"])
fire("canonical-unparsed", ["C13", "C12"], S, "    _to_parsing_canonical_form(parse_schema(schema), fo)", "    _to_parsing_canonical_form(schema, fo)", ["C13.R2", "C12.R1"])
fire("fingerprint-guard-dropped", ["C14"], S, "    if algorithm not in FINGERPRINT_ALGORITHMS:\n        raise ValueError(\n            f\"Unknown schema fingerprint algorithm {algorithm}. \"\n            + f\"Valid values include: {FINGERPRINT_ALGORITHMS}\"\n        )\n", "", ["C14.R1"])
fire("rabin-big-endian", ["C14"], "fastavro/_schema_common.py", 'byteorder="little"', 'byteorder="big"', ["C14.R4"])
fire("fingerprint-latin1", ["C14"], S, "    h = hashlib.new(algorithm, parsing_canonical_form.encode())", '    h = hashlib.new(algorithm, parsing_canonical_form.encode("latin-1"))', ["C14.R3"])
silent("schema-name-locals-renamed", ["C11", "C13"], S, '    namespace = schema.get("namespace", parent_ns)\n    if "." in name:\n        return name.rsplit(".", 1)[0], name\n    elif namespace:\n        return namespace, f"{namespace}.{name}"\n    else:\n        return "", name', '    namespace = schema.get("namespace", parent_ns)\n    if "." in name:\n        return name.rsplit(".", 1)[0], name\n    if namespace:\n        return namespace, f"{namespace}.{name}"\n    return "", name')

# ---------------------------------------------------------------- C15 / C16
fire("json-null-drops-default", ["C15"], PA, "            return Null(default=default)", "            return Null()", ["C15.R5"])
fire("json-bytes-utf8", ["C15"], JD, '    def read_bytes(self):\n        symbol = self._parser.advance(Bytes())\n        return self.read_value(symbol).encode("iso-8859-1")', '    def read_bytes(self):\n        symbol = self._parser.advance(Bytes())\n        return self.read_value(symbol).encode("utf-8")', ["C15.R4"])
fire("json-read-int-advances-long", ["C15"], JD, "    def read_int(self):\n        symbol = self._parser.advance(Int())", "    def read_int(self):\n        symbol = self._parser.advance(Long())", ["C15.R2"])
fire("json-default-adopted", ["C15", "C17", "C18"], JD, "                self._current = deepcopy(symbol.get_default())", "                self._current = symbol.get_default()", ["C15.R8", "C17.R1", "C18.R2"])
fire("json-null-wrapped", ["C15"], JE, "        if symbol != Null() and self._write_union_type:", "        if self._write_union_type:", ["C15.R6"])
fire("json-splitlines", ["C15"], JD, "        self._json_data = [json.loads(line.strip()) for line in fo]", "        self._json_data = [json.loads(line) for line in fo.read().splitlines() if line.strip()]", ["C15.R9"])
fire("logical-readers-lose-date", ["C16"], LR, '    "int-date": read_date,\n', "", ["C16.R1"])
fire("local-read-aware-epoch", ["C16"], LR, "    return epoch_naive + timedelta(microseconds=data * 1000)", "    return epoch + timedelta(microseconds=data * 1000)", ["C16.R3"])
fire("fixed-decimal-fit-dropped", ["C16"], LW, "    if bits_req > size_in_bits:\n        # Never store a truncated (and therefore different) number\n        raise ValueError(\n            f\"The decimal needs {bits_req} bits and does not fit into the \"\n            + f\"fixed size of {size} bytes given by the schema\"\n        )\n", "", ["C16.R5"])
fire("decimal-normalize", ["C16"], LW, "    scale = schema.get(\"scale\", 0)\n    precision = schema[\"precision\"]\n\n    sign, digits, exp = data.as_tuple()\n\n    if len(digits) > precision:\n        raise ValueError(\"The decimal precision is bigger than allowed by schema\")\n\n    delta = exp + scale", "    scale = schema.get(\"scale\", 0)\n    precision = schema[\"precision\"]\n\n    sign, digits, exp = data.normalize().as_tuple()\n\n    if len(digits) > precision:\n        raise ValueError(\"The decimal precision is bigger than allowed by schema\")\n\n    delta = exp + scale", ["C16.R4", "C16.R6"])
fire("prepare-after-writer", ["C16"], W, "        if logical_type:\n            prepare = LOGICAL_WRITERS.get(logical_type)\n            if prepare:\n                datum = prepare(datum, schema)\n        try:", "        try:", ["C16.R2"])

# ---------------------------------------------------------------- C17 / C18
fire("parse-edits-input", ["C17", "C18"], S, '            parsed_schema["name"] = fullname\n            parsed_schema["symbols"] = schema["symbols"]', '            schema["name"] = fullname\n            parsed_schema["name"] = fullname\n            parsed_schema["symbols"] = schema["symbols"]', ["C17.R1", "C18.R2"])
fire("module-level-cache", ["C17", "C18"], VA, 'def _validate_enum(datum, schema, **kwargs):\n    """Check that the data value matches one of the enum symbols."""\n    return datum in schema["symbols"]', '_ENUM_CACHE = {}\n\n\ndef _validate_enum(datum, schema, **kwargs):\n    """Check that the data value matches one of the enum symbols."""\n    if schema["name"] not in _ENUM_CACHE:\n        _ENUM_CACHE[schema["name"]] = frozenset(schema["symbols"])\n    return datum in _ENUM_CACHE[schema["name"]]', ["C17.R2", "C18.R1"])
fire("shared-decimal-context", ["C17", "C18"], LR, "    context = Context(prec=precision)\n    return context.create_decimal(unscaled_datum).scaleb(-scale, context)", "    decimal_context.prec = precision\n    return decimal_context.create_decimal(unscaled_datum).scaleb(-scale, decimal_context)", ["C17.R2", "C18.R1"])
fire("options-default-mutated", ["C17", "C18"], W, "    best_match_index = -1\n    if isinstance(datum, tuple) and not options.get(\"disable_tuple_notation\"):", "    options.setdefault(\"_seen_unions\", 0)\n    best_match_index = -1\n    if isinstance(datum, tuple) and not options.get(\"disable_tuple_notation\"):", ["C17.R3", "C18.R1"])
fire("record-field-popped", ["C17"], W, "        datum_value = datum.get(name, field.get(\"default\"))", "        datum_value = datum.pop(name, field.get(\"default\"))", ["C17.R1", "C02.R5"])
fire("names-set-module-level", ["C17"], S, '    else:\n        return _parse_schema(\n            schema,\n            "",\n            expand,\n            _write_hint,\n            set(),', '    else:\n        return _parse_schema(\n            schema,\n            "",\n            expand,\n            _write_hint,\n            RESERVED_PROPERTIES,', ["C17.R2", "C17.R4"])
silent("parse-field-comprehension-to-loop", ["C17", "C18"], S, "    parsed_field = {\n        key: value\n        for key, value in field.items()\n        if key not in RESERVED_FIELD_PROPERTIES\n    }", "    parsed_field = {}\n    for key, value in field.items():\n        if key not in RESERVED_FIELD_PROPERTIES:\n            parsed_field[key] = value")

# ---------------------------------------------------------------- C19 / C20
fire("load-error-swallowed", ["C19"], S, "        except SchemaRepositoryError:\n            raise error\n", "        except SchemaRepositoryError:\n            raise\n", ["C19.R1"])
fire("inject-twice", ["C19"], S, '        if sub_schema["name"] not in injected_schemas:\n            injected_schema = _inject_schema(schema, sub_schema)', '        if True:\n            injected_schema = _inject_schema(schema, sub_schema)', ["C19.R2"])
fire("inject-namespace-from-key", ["C19"], S, "            namespace, _ = schema_name(outer_schema, namespace)", '            namespace = outer_schema.get("namespace", namespace)', ["C19.R3"])
fire("ordered-private-tables", ["C19"], S, "        schema = load_schema(\n            schema_path, named_schemas=named_schemas, _write_hint=_last\n        )", "        schema = load_schema(schema_path, _write_hint=_last)", ["C19.R4"])
fire("time-millis-inclusive-day", ["C20"], UT, "            return random.randint(0, MLS_PER_HOUR * 24 - 1)", "            return random.randint(0, MLS_PER_HOUR * 24)", ["C20.R2"])
fire("generate-off-by-one", ["C20"], UT, "    for _ in range(count):\n        yield gen_data(parsed_schema, named_schemas)", "    for _ in range(count + 1):\n        yield gen_data(parsed_schema, named_schemas)", ["C20.R3"])
fire("gen-data-loses-fixed", ["C20"], UT, '    elif record_type == "fixed":\n        fixed_schema = cast(Dict[str, Any], schema)\n        return _randbytes(fixed_schema["size"])\n', "", ["C20.R1"])
fire("date-beyond-max", ["C20"], UT, "                -DAYS_SHIFT + 1, datetime.date.max.toordinal() - DAYS_SHIFT", "                -DAYS_SHIFT + 1, datetime.date.max.toordinal()", ["C20.R2"])
